#!/usr/bin/env python3
"""Builds /verif/seeded/<ID>-r5<x>/ from the round-5 sub-agent outputs kept in scratch/r5/<wt>/ (a.patch, a_demo*,
notes.md) and tools/data/round5.json:
  {"c01a": {"manifests_as": "C01", "change": "...", "needs": "...", "checks": ["C01"], "strengthening": null|"...",
            "first_outcome": "detected"|"missed ...", "cmd": "... how the demonstration was run ...",
            "suite": "103 passed, 0 failed, 51 ignored"}}
Signatures are taken from scratch/r5/try*.log (sections "=== <CHECK> <wt> <x>")."""
import json, os, shutil, re, glob
ROOT = "/verif"
data = json.load(open(f"{ROOT}/tools/data/round5.json"))
sig = {}
for log in sorted(glob.glob(f"{ROOT}/scratch/r5/try*.log")):
    cur = None
    for line in open(log, errors="replace"):
        m = re.match(r"=== (C\d\d) (c\d\d) ([abc])", line)
        if m:
            cur = (m.group(2) + m.group(3), m.group(1)); continue
        m = re.match(r"violation: signature=(\S+)", line)
        if m and cur:
            sig.setdefault(cur, set()).add(m.group(1))
for key, e in sorted(data.items()):
    wt, x = key[:3], key[3]
    src = f"{ROOT}/scratch/r5/{wt}"
    sid = f"C{wt[1:]}-r5{x}"
    d = f"{ROOT}/seeded/{sid}"
    os.makedirs(d, exist_ok=True)
    shutil.copy(f"{src}/{x}.patch", f"{d}/patch.diff")
    demos = []
    for f in sorted(os.listdir(src)):
        if f.startswith(f"{x}_demo") and os.path.isfile(f"{src}/{f}"):
            shutil.copy(f"{src}/{f}", f"{d}/{f}"); demos.append(f)
    if os.path.isdir(f"{src}/demo"):
        for rel, name in (("Cargo.toml", "demo_crate_Cargo.toml"), (f"tests/{x}_demo.rs", f"{x}_demo.rs"), ("src/lib.rs", "demo_crate_lib.rs")):
            if os.path.exists(f"{src}/demo/{rel}"):
                shutil.copy(f"{src}/demo/{rel}", f"{d}/{name}")
                if name not in demos: demos.append(name)
    if os.path.exists(f"{src}/notes.md"):
        shutil.copy(f"{src}/notes.md", f"{d}/agent_notes.md")
    meta = {
        "id": sid, "round": 5, "property": f"C{wt[1:]}", "manifests_as": e["manifests_as"], "change": e["change"],
        "needs_in_order_to_manifest": e["needs"],
        "origin": "written by a fresh sub-agent that was given only the property text and its own scratch worktree of /repo (nothing from /verif), asked for one change on less travelled ground (see the hint per property in DESIGN.md 10.5, round 5) that needs something specific to manifest",
        "confirmed_in_scratch_worktree": {
            "worktree": f"/tmp/wt5/{wt} (removed afterwards)", "commands": e["cmd"], "demonstration": demos,
            "demo_on_unchanged_tree": "passes", "demo_with_change": "fails", "existing_suite_with_change": e.get("suite", "103 passed, 0 failed, 51 ignored")},
        "checks_run": "git -C /repo apply patch.diff; VERIF_NO_EVIDENCE=1 ./check <ID> quick; git -C /repo checkout -- .  (tools/try_mutant.sh)",
        "first_outcome": e.get("first_outcome", "detected"),
        "strengthening": e.get("strengthening"),
        "detected_by": [{"check": c, "tier": "quick", "signatures": sorted(sig.get((key, c), []))} for c in e["checks"]],
    }
    json.dump(meta, open(f"{d}/meta.json", "w"), indent=1)
print("done", len(data))
