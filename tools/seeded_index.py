#!/usr/bin/env python3
"""Writes /verif/seeded/INDEX.md: one line per seeded change (from the meta.json files)."""
import json, glob, os
ROOT = os.path.dirname(os.path.dirname(os.path.abspath(__file__)))
rows = []
for m in sorted(glob.glob(f"{ROOT}/seeded/*/meta.json")):
    d = json.load(open(m))
    det = ", ".join(f"{x['check']} ({x.get('tier','quick')})" for x in d["detected_by"])
    sigs = "; ".join(s for x in d["detected_by"] for s in x.get("signatures", [])[:2])
    rows.append((d["id"], d.get("round", 1), d["change"], d["needs_in_order_to_manifest"], det, d.get("strengthening") or "", sigs))
with open(f"{ROOT}/seeded/INDEX.md", "w") as f:
    f.write("# Seeded changes (written by sub-agents that saw only one property's text) and the checks that detect them\n\n")
    f.write(f"{len(rows)} changes; every one confirmed in a scratch worktree (demonstration passes unchanged, fails with the change, existing suite passes) and detected by the quick tier of the named check. `./check selftest` re-runs all of them.\n\n")
    f.write("| id | round | change | needs | detected by | strengthening that was needed | example signatures |\n|---|---|---|---|---|---|---|\n")
    for r in rows:
        f.write("| " + " | ".join(str(x).replace("|", "\\|").replace("\n", " ") for x in r) + " |\n")
print(len(rows), "rows")
