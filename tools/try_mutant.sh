#!/bin/bash
# tools/try_mutant.sh <PROP> <patch> [quick|thorough]  — applies a patch to /repo, runs the check without
# touching the evidence file, and undoes the patch straight afterwards. Prints DETECTED / MISSED.
set -u
PROP=$1; PATCH=$2; TIER=${3:-quick}
cd /repo || exit 2
if ! git diff --quiet; then echo "try_mutant: /repo has uncommitted changes"; exit 2; fi
git apply "$PATCH" || { echo "try_mutant: patch does not apply"; exit 2; }
cd /verif
out=$(VERIF_NO_EVIDENCE=1 ./check "$PROP" "$TIER" 2>&1); code=$?
git -C /repo checkout -- . 
echo "$out" | grep -E "^violation|^KNOWN|HARNESS|^summary" | cut -c1-330
if [ $code -eq 1 ]; then echo "RESULT $PROP $(basename $PATCH) $TIER: DETECTED"; elif [ $code -eq 0 ]; then echo "RESULT $PROP $(basename $PATCH) $TIER: MISSED"; else echo "RESULT $PROP $(basename $PATCH) $TIER: HARNESS-ERROR($code)"; fi
