#!/usr/bin/env python3
"""Determinism protocol (DESIGN §7): every run index of every property must give the same trace
hash and verdict (a) inside one process that executes consecutive indices, (b) inside processes
that execute every 4th index from different starting points (so each run sits behind different
predecessors, at a different position, in a different process) and (c) alone in a newly started
process (a sample). A disagreement means state survives between runs or a source of
nondeterminism is not behind a seam: harness error, exit 2.

usage: ./check determinism [N per property, default 240] [PROP ...]
"""
import os, subprocess, sys, json

ROOT = os.path.dirname(os.path.dirname(os.path.abspath(__file__)))
SEQ = os.path.join(ROOT, "sim/target/release/seqsim")
SCHED = os.path.join(ROOT, "sched/target/release/schedsim")
SCHED_PROPS = {"C14", "C15", "C16"}
# served by both engines: the SCHED part is traced under the label <ID>/sched
DUAL = {"C08", "C11"}


def trace(prop, start, stride, end):
    sched_part = prop.endswith("/sched")
    prop = prop.split("/")[0]
    exe = SCHED if (prop in SCHED_PROPS or sched_part) else SEQ
    out = {}
    cur = start
    while cur < end:
        p = subprocess.run([exe, "trace", prop, str(cur), str(stride), str(end)], capture_output=True, text=True, env=dict(os.environ, VERIF_ROOT=ROOT))
        stopped = None
        last = None
        for line in p.stdout.splitlines():
            f = line.split(" ", 3)
            if f[0] == "T":
                out[int(f[1])] = (f[2], f[3] if len(f) > 3 else "-")
                last = int(f[1])
            elif f[0] == "STOPPED":
                stopped = int(f[1])
        if stopped is not None:
            cur = stopped + stride
        elif p.returncode != 0 and last is not None:
            # process died (abort) while executing the index after `last`
            died = last + stride
            out[died] = ("0", "abort")
            cur = died + stride
        elif p.returncode != 0:
            out[cur] = ("0", "abort")
            cur += stride
        else:
            break
    return out


def main():
    args = [a for a in sys.argv[1:]]
    n = 240
    props = []
    for a in args:
        if a.isdigit():
            n = int(a)
        else:
            props.append(a)
    if not props:
        m = json.load(open(os.path.join(ROOT, "MANIFEST.json")))
        props = [c["property_id"] for c in m["checks"]]
    bad = 0
    props = [x for p in props for x in ([p, p + "/sched"] if p in DUAL else [p])]
    for prop in props:
        # heavy properties get fewer indices
        nn = n // 8 if prop in ("C08", "C19") else n
        a = trace(prop, 0, 1, nn)
        b = {}
        for k in range(4):
            b.update(trace(prop, k, 4, nn))
        sample = list(range(0, nn, max(1, nn // 24)))
        c = {}
        for i in sample:
            c.update(trace(prop, i, 1, i + 1))
        diffs = []
        for i in range(nn):
            va, vb = a.get(i), b.get(i)
            if va is None or vb is None or (va != vb and "abort" not in (va[1], vb[1])):
                diffs.append((i, "consecutive", va, "strided", vb))
            vc = c.get(i)
            if vc is not None and va is not None and va != vc and "abort" not in (va[1], vc[1]):
                diffs.append((i, "consecutive", va, "alone", vc))
        viol = sorted(set(v[1] for v in a.values() if v[1] != "-"))
        print(f"determinism {prop}: {nn} indices x 2 batch layouts + {len(sample)} alone: {'OK' if not diffs else 'DIFFERENT'}" + (f" (verdicts seen: {viol})" if viol else ""))
        for d in diffs[:5]:
            print("   ", d)
        bad += len(diffs)
    if bad:
        print("HARNESS-ERROR determinism protocol found", bad, "disagreements")
        sys.exit(2)
    print("determinism protocol passed")


main()
