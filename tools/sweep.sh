#!/bin/bash
# tools/sweep.sh [tier] [seed ...]  — runs every claimed check under several VERIF_SEED values on the current tree
# without touching the evidence files; prints one line per (check, seed) and exits 1 if any run did not exit 0.
# A non-zero exit on the unchanged tree is either a genuine defect or a false alarm: both must be resolved.
cd /verif || exit 2
tier=${1:-quick}; shift
seeds=${*:-"1 7 424242 20260924 987654321"}
ids=$(python3 -c "import json;print(' '.join(c['property_id'] for c in json.load(open('MANIFEST.json'))['checks']))")
bad=0
for s in $seeds; do
  for id in $ids; do
    out=$(VERIF_SEED=$s VERIF_NO_EVIDENCE=1 ./check $id $tier 2>&1); code=$?
    echo "seed=$s $id exit=$code $(echo "$out" | grep -E '^summary' | sed 's/summary property=[A-Z0-9]* //' | tr '\n' ' ' | cut -c1-160)"
    if [ $code -ne 0 ]; then bad=$((bad+1)); echo "$out" | grep -E "^violation|^VIOLATION|HARNESS|^note" | cut -c1-400; fi
  done
done
echo "sweep: $bad runs did not exit 0"
[ $bad -eq 0 ]
