#!/usr/bin/env python3
"""Generates /verif/MANIFEST.json from the table below (single source of truth)."""
import json, os, subprocess
ROOT = os.path.dirname(os.path.dirname(os.path.abspath(__file__)))

SEQ_NOTE = ("Trusted: rustc/std, the virtual clock hook H1 (every time read and sleep of sentinel-core goes through it), the seeded "
            "getrandom interposer (hash order), the reset protocol between runs (guarded by confirmation of every violation in a newly "
            "started process and by ./check determinism), the reference model of this property. Background threads are never started. "
            "Sampling, not enumeration: a clean batch is evidence, not proof.")

# id -> (engine, level, text, design_ref, technique, note)
CLAIMED = {
 "C01": ("seq", "exploration",
         "Seeded deterministic simulation of build/exit/advance histories under a virtual clock against a bucketised reference window (RefWin) per rule; every decision compared, blocking rule must be one that is really exceeded, plus a model-free window bound at the end. Exploration is the right level: the quantifier is an unbounded space of histories x geometries, sampled with boundary-biased time steps.",
         "DESIGN.md §4 C01", "deterministic simulation: virtual clock + seeded histories vs reference window model", SEQ_NOTE),
 "C02": ("seq", "exploration",
         "Seeded deterministic simulation of write/advance/read histories on resource nodes created under generated window geometries (ring 1..20 x 1..1000 ms; servable and unservable read windows) under a virtual clock; every read of every reader (sum, qps, qps_previous, avg_rt, min_rt) compared with the recorded event list; construction accept/refuse compared with an independent predicate. Exploration: unbounded histories x geometries, sampled with boundary-biased steps.",
         "DESIGN.md §4 C02", "deterministic simulation: virtual clock + seeded event histories vs recorded-event reference", SEQ_NOTE),
 "C04": ("seq", "exploration",
         "Seeded deterministic simulation of build/exit/advance histories over several resources, inbound and outbound, with a rule mix of all five families (throttling included, so that entries queue) blocking part of the traffic, occasionally with ~10000 other resources already tracked; after every operation the 1 s and 10 s windows and the in-flight count of every resource node and of the global inbound node are compared with a reference account fed with the observed outcomes.",
         "DESIGN.md §4 C04", "deterministic simulation: virtual clock + seeded histories vs reference accounting model", SEQ_NOTE),
 "C05": ("seq", "exploration",
         "Seeded deterministic simulation of build/exit interleavings (PRNG picks which open entry exits) under isolation and hotspot-concurrency rules (inbound and outbound entries, override tables incl. 0, the empty string as a parameter value); each decision compared with reference in-flight counts per resource and per (rule, parameter value); block type and named rule checked.",
         "DESIGN.md §4 C05", "deterministic simulation: seeded build/exit interleavings vs reference in-flight model", SEQ_NOTE),
 "C03": ("seq", "exploration",
         "Seeded deterministic simulation of enter/complete/advance histories (completions ok|error, fast|slow through the virtual clock, arrivals on and around the retry time) on 1-2 breakers (slow-request limits up to 120 s) plus an optional flow rule that rejects a probe elsewhere; build() result, current_state() of every breaker and the full listener log are compared with a reference state machine after every operation.",
         "DESIGN.md §4 C03 / appendix A.2", "deterministic simulation: virtual clock + seeded event histories vs reference state machine", SEQ_NOTE),
 "C06": ("seq", "exploration",
         "Seeded deterministic simulation of arrival histories (gaps 0 .. several durations incl. exactly d and d+1 ms) against hotspot QPS/reject rules; stated upper bound per value, rejection only when a conservative reference bucket is insufficient, per-value overrides, and a differential second execution projected onto one value (no cross-talk).",
         "DESIGN.md §4 C06 / appendix A.3", "deterministic simulation: virtual clock + seeded arrivals vs reference token bucket and differential re-execution", SEQ_NOTE),
 "C07": ("seq", "exploration",
         "Seeded deterministic simulation with a ns-resolution virtual clock and virtual sleep: arrivals in bursts and on the scheduled slot +-1 ns/ms against flow and hotspot throttling rules, observed through perform_checking (queues build up) and through build() (the clock must really have moved to the scheduled time).",
         "DESIGN.md §4 C07 / appendix A.4", "deterministic simulation: virtual clock and virtual sleep + seeded arrivals vs reference pacing model", SEQ_NOTE),
 "C08": ("seq", "exploration",
         "Seeded deterministic simulation of 40-200 simulated seconds of real build() calls per run on a 1..20 ms grid through demand phases (saturating, about q/c, below, idle 0..5p s; one run in three begins with a steered drain that stops traffic with the token bucket exactly on the warning line before an idle gap >= 2p) under the virtual clock; trajectory invariants on per-second admissions and on the allowance read through the calculator (upper bound q, floor about q/c, monotone ramp reaching q within 2p+2 s, cold start and cold again after idle >= 2p). A second part under the controlled thread scheduler races 2-3 simulated threads on a cold rule at one frozen instant: admissions never exceed the cold allowance by more than one per thread.",
         "DESIGN.md §4 C08", "deterministic simulation: long virtual-time trajectories vs trajectory invariants", SEQ_NOTE),
 "C09": ("seq", "exploration",
         "Seeded deterministic simulation of inbound/outbound traffic histories with injected load/CPU readings; system rule sets are (re)loaded mid-history with thresholds resolved below/equal/above the reference's predicted observation, every inbound decision, block type, named rule and reported value compared with the reference.",
         "DESIGN.md §4 C09 / appendix A.5", "deterministic simulation: virtual clock + injected readings + seeded histories vs reference inbound model", SEQ_NOTE),
 "C10": ("seq", "exploration",
         "Seeded deterministic simulation of management histories (load-all, load-for-resource, append, clear, clear-for-resource) per family over pools of valid, invalid, equal-but-differently-identified, edited-with-the-same-id and nearest-neighbour (threshold one representable value apart) rules, incl. a registered custom hotspot strategy and odd statistic intervals, with seeded hash order; rule equality restated on the specifications, reported rules matched by complete fingerprint; reported rules, live controller/breaker lists and (flow, isolation) behaviourally measured enforcement compared with a reference map after every call; calls under catch_unwind with a health probe.",
         "DESIGN.md §4 C10", "deterministic simulation: seeded management histories and hash order vs reference rule map", SEQ_NOTE),
 "C12": ("seq", "exploration",
         "Seeded walk over the rule space of all five families (every enum value incl. unregistered custom strategies, boundary and out-of-range numerics, NaN, empty/blank names) through every loading entry point (sometimes with entries already in flight when the rules arrive; one run in ten a small-parameter-cache walk), followed by entries with batch {0,1,2,10^6}, argument lists and attachments, virtual time steps and exits; every call under catch_unwind and the run watchdogs (CPU time for spinning runs, wall clock for blocked ones), each run isolated on its own thread with a health probe of all managers afterwards (a poisoned lock is visible to this run and to no other).",
         "DESIGN.md §4 C12", "deterministic simulation: isolated runs with virtual time, catch_unwind + watchdog + health probe over a seeded rule-space walk", SEQ_NOTE),
 "C11": ("seq", "exploration",
         "Differential deterministic simulation: the same seeded traffic history on a target guarded by one stateful rule (10 rule variants) is executed without and with a reload (load-all / load-for-resource, equal target rule under a new id, unrelated resources changed) at a random point, 3000 virtual seconds apart so that every bucket alignment is preserved; decisions, waits, block types and breaker states must be identical. A changed threshold must be followed by the very next entry.",
         "DESIGN.md §4 C11", "deterministic simulation: differential re-execution of one seeded history with/without reload under the virtual clock", SEQ_NOTE),
 "C17": ("seq", "exploration",
         "Seeded deterministic simulation over a grid of configurations given as entity and as YAML text: accept/refuse compared with an independent predicate; nodes created on the initialising thread, on a second (spawned-and-joined, never concurrent) thread and on a thread that existed before initialisation run the same virtual-time write/read history and must all show the configured geometry; after a refused initialisation the run continues and the previous (default) configuration must still be in effect.",
         "DESIGN.md §4 C17", "deterministic simulation: serialised real threads + virtual clock, behavioural measurement of window geometry vs reference", SEQ_NOTE),
 "C20": ("seq", "exploration",
         "Seeded deterministic simulation of request sequences through the real SentinelService around a scripted inner service (ready/pending x j, Ok/Err) with a hand-written executor that polls one in-flight future at a time in PRNG order; inner-call counts, outputs and the resource's in-flight count are compared with a reference isolation model after every step; fallbacks that answer or return an error; the virtual wall clock is advanced and stepped back between operations (clock-jump fault). Inner-service failure and slow (pending) inner calls are the injected faults.",
         "DESIGN.md §4 C20", "deterministic simulation: scripted inner service + deterministic future executor + fault sequence (inner errors, pending polls) vs reference admission model", SEQ_NOTE),
}

PENDING_REASON = "check not built yet in this round (design in DESIGN.md §4); not claimed until it runs"
SCHED_NOTE = ("Trusted: rustc/std, shuttle 0.9.3's model of Mutex/RwLock/atomics/thread/lazy_static (sequentially consistent; weak-memory effects of the few Relaxed failure orderings are out of reach), "
              "the mechanical substitution table of sched/regen.sh (guarded by a residual-pattern scan, exit 2), the virtual clock hook H1, our Scheduler implementation. "
              "Every violation is re-executed from its scripted schedule in a newly started process before it is reported. Sampling of schedules, not enumeration.")

CLAIMED.update({
 "C14": ("sched", "exploration",
         "Controlled-scheduler simulation: 2-3 simulated threads build/exit entries on one fresh or existing resource while our own seeded scheduler (uniform, PCT-style, preemption-sparse) decides every interleaving of sentinel-core's lock/atomic operations and a clock task may roll the bucket over (or move the clock a whole ring lap further) at any scheduling point; after join node identity, in-flight and window totals are compared with the per-thread sums. Failing executions are rewritten to default policy + explicit preemptions, minimised and replayed.",
         "DESIGN.md §3.3, §4 C14", "deterministic simulation: controlled thread scheduler with seeded schedule search and replayable preemption lists", SCHED_NOTE),
 "C15": ("sched", "exploration",
         "Controlled-scheduler simulation of concurrent rule-management calls (all seven operation kinds, within and across families) with optional concurrent entries, callback listeners and callback generators; verdicts are the runtime's deadlock detection (blocked cycle or self re-lock), a step bound, absence of panics and a sequential health probe of all managers.",
         "DESIGN.md §3.3, §4 C15", "deterministic simulation: controlled thread scheduler, deadlock verdict + bounded liveness + health probe", SCHED_NOTE),
 "C16": ("sched", "exploration",
         "Controlled-scheduler simulation of races around each breaker transition (S1-S4) with the clock frozen; a totally ordered log of listener callbacks and decisions is checked for valid state-machine paths, single winners, one probe per Half-Open phase, no Open->Half-Open before the retry time of the current Open phase, and roll-back of rejected probes (also when stale completions decide the phase first).",
         "DESIGN.md §3.3, §4 C16", "deterministic simulation: controlled thread scheduler, history checks over a totally ordered event log", SCHED_NOTE),
})

CLAIMED["C19"] = ("seq", "fault_enumeration",
         "Seeded write histories through the real metric log writer (size and date roll-over, retention) under the virtual clock; short writes and EINTR injected into the writer's write(2) calls; a long-lived searcher queries between writes (its cache must survive roll-over and retention); exhaustive query windows on the uncrashed directory for fresh, reused and long-lived searchers; then fault enumeration: the libc-level operation log (every create, unlink and written byte in program order) is cut at EVERY crash point of each sampled history, each prefix materialised as a directory and searched (no panic, complete+indexed items returned in order, at most the single torn last line lost or misread). All crash points of each sampled history are enumerated; histories are sampled.",
         "DESIGN.md §4 C19 / appendix A.6", "deterministic simulation with crash-point enumeration over a recorded libc-level write/create/unlink log",
         SEQ_NOTE + " Crash model as stated by the property: the surviving files are a prefix, in program order, of what the writer issued (no page-cache reordering); crash states are synthesised from the recorded operation log, whose fidelity is self-checked against the real directory at the end of every history and validated against real process deaths inside the seam (./check validate-c19). At sampled crash states a new writer is started on the crashed directory (restart) and the directory is searched again.")

NOT_APPLICABLE = {
 "C13": "pure function of (chain shape, order values, scripted slot results): no clock, schedule, fault or surviving state for a simulator to own (DESIGN.md §5)",
 "C18": "pure functions value <-> bytes; truncated documents are inputs, not faults at an instant; nothing for a scheduler, clock or fault injector to decide (DESIGN.md §5)",
}

def main():
    props = [json.loads(l)["id"] for l in open(os.path.join(ROOT, "properties.jsonl"))]
    checks = []
    na = []
    for pid in props:
        if pid in CLAIMED:
            eng, level, text, ref, tech, note = CLAIMED[pid]
            checks.append({
                "property_id": pid,
                "quick_cmd": f"./check {pid} quick",
                "thorough_cmd": f"./check {pid} thorough",
                "evidence_file": f"/verif/evidence/{pid}.json",
                "replay_cmd_template": "./check --replay {path}",
                "engine": eng,
                "level_claimed": {"category": level, "text": text, "design_ref": ref},
                "level_note": note,
                "technique": tech,
            })
        else:
            na.append({"property_id": pid, "reason": NOT_APPLICABLE.get(pid, PENDING_REASON)})
    hooks_commits = subprocess.run(["git", "-C", "/repo", "log", "--format=%H %s", "--grep=^verif hook"],
                                   capture_output=True, text=True).stdout.strip().splitlines()
    m = {
        "version": 1,
        "setup_cmd": "./check build",
        "hooks": {
            "guard": "sentinel_verif",
            "enable": "RUSTFLAGS=--cfg sentinel_verif via /verif/sim/.cargo/config.toml and /verif/sched/.cargo/config.toml (shadow manifests under /verif build /repo's working tree; /repo's Cargo.toml and Cargo.lock are untouched)",
            "baseline_off_cmd": "cd /repo && cargo test --workspace --no-fail-fast --offline",
            "source_commits": [c.split(" ")[0] for c in hooks_commits],
            "add_only": True,
        },
        "engines": [
            {"name": "seq", "path": "/verif/sim", "serves_properties": [p for p in props if p in CLAIMED and CLAIMED[p][0] == "seq"],
             "kind_free_text": "discrete-event deterministic simulation: virtual clock, seeded scenarios and hash order, one pristine OS thread per run, violations confirmed/minimised/replayed in new processes"},
            {"name": "sched", "path": "/verif/sched", "serves_properties": [p for p in props if p in CLAIMED and (CLAIMED[p][0] == "sched" or p in ("C08", "C11"))],
             "kind_free_text": "controlled thread scheduler (shuttle primitives on a mechanically rewritten copy of sentinel-core, own seeded Scheduler), replayable schedules"},
        ],
        "checks": checks,
        "not_applicable": na,
        "notes": "Exit codes: 0 held (possibly after KNOWN-FINDING lines), 1 VIOLATION, 2 harness error. VERIF_SEED, VERIF_TIER, VERIF_WORKERS honoured. known_findings.json is never written at run time.",
    }
    json.dump(m, open(os.path.join(ROOT, "MANIFEST.json"), "w"), indent=1)
    print("MANIFEST.json written:", len(checks), "checks,", len(na), "not claimed")

main()
