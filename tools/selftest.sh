#!/bin/bash
# ./check selftest [ID-prefix]  — sensitivity protocol: applies every seeded change under /verif/seeded (and the
# hand-written ones under /verif/mutants) to /repo in turn, runs the quick check that is recorded as detecting it,
# undoes the change, and reports DETECTED / MISSED. Not a property check; exit 1 if any recorded detection is missed.
cd /verif || exit 2
missed=0
for d in seeded/${1:-}*/; do
  id=$(basename $d)
  for chk in $(python3 -c "import json;print(' '.join(x['check'] for x in json.load(open('$d/meta.json'))['detected_by']))"); do
    r=$(tools/try_mutant.sh $chk $PWD/$d/patch.diff quick 2>&1 | grep "^RESULT")
    echo "$id via $chk: ${r##*: }"
    case "$r" in *DETECTED) ;; *) missed=$((missed+1));; esac
  done
done
echo "selftest: $missed missed"
[ $missed -eq 0 ]
