#!/bin/bash
# ./check selftest [ID-prefix]  — sensitivity protocol: applies every seeded change under /verif/seeded to /repo in
# turn, runs the quick check(s) recorded as detecting it, undoes the change, and reports DETECTED / MISSED together
# with the signatures seen (also written to seeded/SELFTEST.txt). Not a property check; exit 1 if any recorded
# detection is missed. Must not run at the same time as any other check (it patches /repo's working tree).
cd /verif || exit 2
missed=0
out=seeded/SELFTEST.txt
[ -z "${1:-}" ] && : > $out
for d in seeded/${1:-}*/; do
  [ -f "$d/meta.json" ] || continue
  id=$(basename $d)
  for chk in $(python3 -c "import json;print(' '.join(x['check'] for x in json.load(open('$d/meta.json'))['detected_by']))"); do
    log=$(tools/try_mutant.sh $chk $PWD/$d/patch.diff quick 2>&1)
    r=$(echo "$log" | grep "^RESULT")
    sigs=$(echo "$log" | grep -o "^violation: signature=[^ ]*" | sed 's/violation: signature=//' | sort -u | tr '\n' ' ')
    echo "$id via $chk: ${r##*: } $sigs" | tee -a $out
    case "$r" in *DETECTED) ;; *) missed=$((missed+1));; esac
  done
done
echo "selftest: $missed missed" | tee -a $out
[ $missed -eq 0 ]
