#!/usr/bin/env python3
"""Merges the evidence parts of a property that is served by both engines into evidence/<id>.json."""
import json, os, sys
pid, a, b = sys.argv[1], sys.argv[2], sys.argv[3]
pa, pb = json.load(open(a)), json.load(open(b))
ca, cb = pa["coverage"], pb["coverage"]
out = {
    "property_id": pid, "tier": pa["tier"], "seed": pa["seed"], "level": pa["level"],
    "wall_s": pa["wall_s"] + pb["wall_s"], "violations": pa.get("violations", 0) + pb.get("violations", 0),
    "coverage": {
        "evaluations": ca["evaluations"] + cb["evaluations"],
        "distinct_nontrivial": ca["distinct_nontrivial"] + cb["distinct_nontrivial"],
        "rule": "PART seq: " + ca["rule"] + " || PART sched: " + cb["rule"],
        "samples": ca["samples"] + cb["samples"],
        "runs_per_hour": int((ca["evaluations"] + cb["evaluations"]) / max(pa["wall_s"] + pb["wall_s"], 1e-9) * 3600),
        "simulated_seconds": ca.get("simulated_seconds", 0) + cb.get("simulated_seconds", 0),
        "parts": {"seq": ca, "sched": cb},
    },
    "assumptions": sorted(set(pa.get("assumptions", []) + pb.get("assumptions", []))),
}
json.dump(out, open(os.path.join(os.path.dirname(a), pid + ".json"), "w"), indent=1)
os.remove(a); os.remove(b)
