#!/usr/bin/env python3
"""Builds /verif/seeded/<ID>-r4<x>/ from the round-4 sub-agent outputs kept in scratch/r4 (one-off; the round-2 version of this script is in the git history)."""
import json, os, shutil, re, glob
ROOT = "/verif"
needs = json.load(open(f"{ROOT}/tools/data/round4_needs.json"))
detected = {
 "c03a": (["C03"], None), "c03b": (["C03"], None),
 "c05a": (["C14"], "same class as C04-r3a: lost update of the in-flight counter, detected by C14"),
 "c05b": (["C10"], "C10: behavioural probe of hotspot enforcement (admissions for a new parameter value) and pool entries that differ only in metric type or capacity"),
 "c06a": (["C11"], "C11: hotspot concurrency targets may carry a second rule on the other positional parameter (the two share statistics settings but count different values)"),
 "c06b": (["C10"], "C10: cross-talk probe (a drained value stays drained while two other values pass by, capacity >= 4)"),
 "c09a": (["C09"], None), "c09b": (["C09"], None), "c10a": (["C10"], None), "c10b": (["C10"], None),
 "c11a": (["C11"], None), "c11b": (["C11"], None), "c12a": (["C12"], None), "c12b": (["C12"], None),
 "c15a": (["C15"], None), "c15b": (["C15"], None), "c16a": (["C16"], None),
 "c16b": (["C11"], "detected by C11 (differential reload: the equal rule arrives under a new id while Open); C16's scenarios do not reload"),
 "c19a": (["C19"], None), "c19b": (["C19"], None),
}
special_cmd = {
 "c02a": "cat a_demo.rs >> sentinel-core/src/core/stat/base/sliding_window_metric.rs && cargo test -p sentinel-core --lib --offline c02_a_demo   (public-API version: a_demo_verif.rs with RUSTFLAGS=--cfg sentinel_verif)",
 "c02b": "cat b_demo.rs >> sentinel-core/src/core/stat/base/sliding_window_metric.rs && cargo test -p sentinel-core --lib --offline c02_b_demo   (public-API version: b_demo_verif.rs with RUSTFLAGS=--cfg sentinel_verif)",
 "c14a": "git apply a_demo.patch && cargo test -p sentinel-core --lib --offline c14_a_demo   (stress version: a_demo.rs)",
}
sig = {}
for log in sorted(glob.glob("/verif/scratch/r4/try_r4*.log")) + sorted(glob.glob(f"{ROOT}/scratch/r4/none*.log")):
    cur = None
    for line in open(log, errors="replace"):
        m = re.match(r"=== (C\d\d) (c\d\d) ([abc])", line)
        if m:
            cur = (m.group(2) + m.group(3), m.group(1)); continue
        m = re.match(r"violation: signature=(\S+)", line)
        if m and cur:
            sig.setdefault(cur, set()).add(m.group(1))
for key, (prop, change, need) in sorted(needs.items()):
    wt, x = key[:3], key[3]
    src = f"{ROOT}/scratch/r4/{wt}"
    sid = f"C{wt[1:]}-r4{x}"
    d = f"{ROOT}/seeded/{sid}"
    os.makedirs(d, exist_ok=True)
    shutil.copy(f"{src}/{x}.patch", f"{d}/patch.diff")
    demos = []
    for f in sorted(os.listdir(src)):
        if f.startswith(f"{x}_demo"):
            shutil.copy(f"{src}/{f}", f"{d}/{f}"); demos.append(f)
    if wt == "c20":
        shutil.copy(f"{src}/demo/Cargo.toml", f"{d}/demo_crate_Cargo.toml")
        shutil.copy(f"{src}/demo/tests/{x}_demo.rs", f"{d}/{x}_demo.rs")
        if os.path.exists(f"{src}/demo/src/lib.rs"):
            shutil.copy(f"{src}/demo/src/lib.rs", f"{d}/demo_crate_lib.rs")
        demos = [f"{x}_demo.rs", "demo_crate_Cargo.toml"]
    shutil.copy(f"{src}/notes.md", f"{d}/agent_notes.md")
    checks, strengthened = detected[key]
    if wt == "c19":
        cmd = f"cp {x}_demo.rs sentinel-core/tests/; cargo test -p sentinel-core --features metric_log --test c19_{x}_demo --offline"
        suite = "103 passed, 0 failed, 51 ignored (and 108 passed with --features metric_log)"
    elif wt == "c20":
        cmd = f"scratch crate (demo_crate_Cargo.toml, tests/{x}_demo.rs) depending on middleware/tower: cargo test --offline --test {x}_demo"
        suite = "103 passed, 0 failed, 51 ignored"
    else:
        cmd = special_cmd.get(key, f"tools/confirm_mutant.sh {wt} {x}  (cp {x}_demo.rs sentinel-core/tests/; cargo test -p sentinel-core --test {wt}_{x}_demo --offline)")
        suite = "103 passed, 0 failed, 51 ignored"
    meta = {
        "id": sid, "round": 4, "property": f"C{wt[1:]}", "manifests_as": prop, "change": change,
        "needs_in_order_to_manifest": need,
        "origin": "written by a fresh sub-agent that was given only the property text and its own scratch worktree of /repo (nothing from /verif), asked for two changes about state across reload/clear, interactions between rules or families, fields at 0/1/maximum, numeric conversions, listener ordering and repeated operations; one of them interleaving-dependent where the property is about schedules",
        "confirmed_in_scratch_worktree": {
            "worktree": f"/tmp/wt4/{wt} (removed afterwards)", "commands": cmd, "demonstration": demos,
            "demo_on_unchanged_tree": "passes", "demo_with_change": "fails", "existing_suite_with_change": suite},
        "checks_run": "git -C /repo apply patch.diff; VERIF_NO_EVIDENCE=1 ./check <ID> quick; git -C /repo checkout -- .  (tools/try_mutant.sh)",
        "first_outcome": "missed by the checks as they were when the change arrived; detected after the strengthening below" if strengthened and not strengthened.startswith(("same", "not a", "detected by")) else "detected",
        "strengthening": strengthened,
        "detected_by": [{"check": c, "tier": "quick", "signatures": sorted(sig.get((key, c), []))} for c in checks],
    }
    json.dump(meta, open(f"{d}/meta.json", "w"), indent=1)
print("done", len(needs))
