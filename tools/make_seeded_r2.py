#!/usr/bin/env python3
"""Builds /verif/seeded/<ID>-r2<x>/ from the round-2 sub-agent outputs kept in scratch/r2 (one-off)."""
import json, os, shutil, re, glob
ROOT = "/verif"
needs = json.load(open(f"{ROOT}/tools/data/round2_needs.json"))
detected = {  # check(s) that detect it (quick tier), and what had to be strengthened first
 "c01a": (["C01"], "C01 generator: arrivals exactly on bucket starts for every interval incl. odd ones"),
 "c01b": (["C01"], "C01 generator: odd statistic intervals (1300, 1501, ...)"),
 "c01c": (["C01"], None),
 "c02a": (["C02"], None), "c02b": (["C02"], "C02 generator: near-miss geometries (read bucket longer than, but not a multiple of, the ring's)"), "c02c": (["C02"], None),
 "c03a": (["C03"], None), "c03b": (["C03"], None), "c03c": (["C03"], None),
 "c04a": (["C04"], None), "c04b": (["C14"], "not a C04 (sequential) failure: lost update of the in-flight counter, detected by the schedule search of C14"), "c04c": (["C04"], "C04 rule mix: throttling rules, rt reference measured from the request, not from admission"),
 "c05a": (["C05"], "C05 generator: inbound entries"), "c05b": (["C05"], "C05 generator: override value 0 (a cap of 0 is outside the quantifier's 1..k; asserted only as 'an override is honoured on every sighting')"), "c05c": (["C05"], None),
 "c06a": (["C06"], None), "c06b": (["C10"], "C10: rule equality restated on the specifications (override tables compared), so a broken library equality shows as a reload reported unchanged"), "c06c": (["C06"], None),
 "c07a": (["C07"], None), "c07b": (["C10"], "C10: spec-level rule equality (pacing interval of throttling rules compared)"), "c07c": (["C07"], "C07 generator: queueing time 0 with arrivals exactly on the slot; free-slot reference"),
 "c08a": (["C08"], None), "c08b": (["C10"], "C10: spec-level rule equality (cold factor compared; 0 and 3 are the same rule, 2 is not)"), "c08c": (["C08"], None),
 "c09a": (["C09"], None), "c09b": (["C09"], None), "c09c": (["C09"], None),
 "c10a": (["C10"], "C10: reported rules matched to pool entries by complete fingerprint, pool contains edited rules that keep their id"),
 "c10b": (["C10"], None), "c10c": (["C10"], "C10 generator: odd statistic intervals for flow rules"),
 "c11a": (["C10"], "same change as C07-r2b; a reload reported unchanged is C10's oracle (C11 compares behaviour only for equal rules)"),
 "c11b": (["C11"], "C11 SCHED part: slip programs (load-all and load-for-resource of the equal rule by two threads, then the allowance is used up)"),
 "c11c": (["C10"], "detected by C10's reference map (load-for-resource with an empty list followed by a reload of the same set)"),
 "c12a": (["C12"], None), "c12b": (["C12"], "C12 generator: four argument values and a small-cache walk; engine: CPU-time watchdog so that a spinning run is a hang verdict in 20 s"), "c12c": (["C12"], None),
 "c14a": (["C14"], None), "c14b": (["C14", "C04", "C02"], "C14: second clock step of one ring lap and a response-time bound per completion inside the window"), "c14c": (["C04"], "C04: one run in 150 starts with ~10000 other resources tracked (the SCHED engine cannot afford 10000 set-up steps)"),
 "c15a": (["C15"], None), "c15b": (["C15"], None), "c15c": (["C15"], None),
 "c16a": (["C16"], None), "c16b": (["C16"], "C16 S4: stale completions race with the rejected probe"), "c16c": (["C11"], "same mechanism as C11: state of an unchanged rule lost on reload; C16's scenarios do not reload"),
 "c17a": (["C17"], None), "c17b": (["C17"], "C17: Sentinel is used after a refused init (the default must stay in effect)"), "c17c": (["C17"], None),
 "c19a": (["C19"], None), "c19b": (["C19"], None), "c19c": (["C19"], None),
 "c20a": (["C20"], None), "c20b": (["C20"], "C20: fallback that returns an error for some requests"), "c20c": (["C14"], "same change as C04-r2b (lost update of the in-flight counter): needs two threads, detected by C14"),
}
special_cmd = {
 "c02a": "git apply a_demo.patch && cargo test -p sentinel-core --lib --offline c02_a_demo",
 "c15a": "git apply a_demo.patch && cargo test -p sentinel-core --lib --offline c15_a_demo -- --ignored",
}
sig = {}
for log in sorted(glob.glob("/tmp/wt2logs/try_r2*.log")) + sorted(glob.glob(f"{ROOT}/scratch/r2/try_*.log")):
    cur = None
    for line in open(log, errors="replace"):
        m = re.match(r"=== (C\d\d) (c\d\d) ([abc])", line)
        if m:
            cur = (m.group(2) + m.group(3), m.group(1)); continue
        m = re.match(r"violation: signature=(\S+)", line)
        if m and cur:
            sig.setdefault(cur, set()).add(m.group(1))
for key, (prop, change, need) in sorted(needs.items()):
    wt, x = key[:3], key[3]
    src = f"{ROOT}/scratch/r2/{wt}"
    sid = f"C{wt[1:]}-r2{x}"
    d = f"{ROOT}/seeded/{sid}"
    os.makedirs(d, exist_ok=True)
    shutil.copy(f"{src}/{x}.patch", f"{d}/patch.diff")
    demos = []
    for f in sorted(os.listdir(src)):
        if f.startswith(f"{x}_demo"):
            shutil.copy(f"{src}/{f}", f"{d}/{f}"); demos.append(f)
    if wt == "c20":
        shutil.copy(f"{src}/demo/Cargo.toml", f"{d}/demo_crate_Cargo.toml")
        shutil.copy(f"{src}/demo/tests/{x}_demo.rs", f"{d}/{x}_demo.rs")
        if os.path.exists(f"{src}/demo/src/lib.rs"):
            shutil.copy(f"{src}/demo/src/lib.rs", f"{d}/demo_crate_lib.rs")
        demos = [f"{x}_demo.rs", "demo_crate_Cargo.toml"]
    shutil.copy(f"{src}/notes.md", f"{d}/agent_notes.md")
    checks, strengthened = detected[key]
    if wt == "c19":
        cmd = f"cp {x}_demo.rs sentinel-core/tests/; cargo test -p sentinel-core --features metric_log --test c19_{x}_demo --offline"
        suite = "103 passed, 0 failed, 51 ignored (and 108 passed with --features metric_log)"
    elif wt == "c20":
        cmd = f"scratch crate (demo_crate_Cargo.toml, tests/{x}_demo.rs) depending on middleware/tower: cargo test --offline --test {x}_demo"
        suite = "103 passed, 0 failed, 51 ignored"
    else:
        cmd = special_cmd.get(key, f"tools/confirm_mutant.sh {wt} {x}  (cp {x}_demo.rs sentinel-core/tests/; cargo test -p sentinel-core --test {wt}_{x}_demo --offline)")
        suite = "103 passed, 0 failed, 51 ignored"
    meta = {
        "id": sid, "round": 2, "property": f"C{wt[1:]}", "manifests_as": prop, "change": change,
        "needs_in_order_to_manifest": need,
        "origin": "written by a fresh sub-agent that was given only the property text and its own scratch worktree of /repo (nothing from /verif), asked for a change that needs an unusual configuration, a multi-step sequence or a particular interleaving",
        "confirmed_in_scratch_worktree": {
            "worktree": f"/tmp/wt/{wt} (removed afterwards)", "commands": cmd, "demonstration": demos,
            "demo_on_unchanged_tree": "passes", "demo_with_change": "fails", "existing_suite_with_change": suite},
        "checks_run": "git -C /repo apply patch.diff; VERIF_NO_EVIDENCE=1 ./check <ID> quick; git -C /repo checkout -- .  (tools/try_mutant.sh)",
        "first_outcome": "missed by the checks as they were when the change arrived; detected after the strengthening below" if strengthened and not strengthened.startswith(("same", "not a", "detected by")) else "detected",
        "strengthening": strengthened,
        "detected_by": [{"check": c, "tier": "quick", "signatures": sorted(sig.get((key, c), []))} for c in checks],
    }
    json.dump(meta, open(f"{d}/meta.json", "w"), indent=1)
print("done", len(needs))
