#!/usr/bin/env python3
"""Copies the signatures seen by the last ./check selftest (seeded/SELFTEST.txt) into the meta.json files."""
import json, os, re
ROOT = os.path.dirname(os.path.dirname(os.path.abspath(__file__)))
for line in open(f"{ROOT}/seeded/SELFTEST.txt"):
    m = re.match(r"(\S+) via (\S+): DETECTED (.*)", line)
    if not m:
        continue
    sid, chk, sigs = m.group(1), m.group(2), m.group(3).split()
    p = f"{ROOT}/seeded/{sid}/meta.json"
    d = json.load(open(p))
    for x in d["detected_by"]:
        if x["check"] == chk and sigs:
            x["signatures"] = sorted(set(sigs))
    json.dump(d, open(p, "w"), indent=1)
