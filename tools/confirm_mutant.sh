#!/bin/bash
# tools/confirm_mutant.sh <id e.g. c01> <a|b>  — independent confirmation of a sub-agent's change in its scratch
# worktree /tmp/wt/<id>: the demonstration passes on the unchanged tree and fails with the change, and the
# existing suite (103 tests) still passes with the change. Leaves the worktree's tracked files unchanged.
set -u
ID=$1; X=$2
WT=${WTBASE:-/tmp/wt}/$ID; M=$WT/MUTANT
cd $WT || exit 2
git checkout -q -- . 
DEMO=$M/${X}_demo.rs
NAME=${ID}_${X}_demo
[ -f "$DEMO" ] || { echo "CONFIRM $ID $X: no demo file"; exit 2; }
cp "$DEMO" sentinel-core/tests/$NAME.rs
if grep -q "sentinel_verif" "$DEMO"; then FLAGS="--cfg sentinel_verif"; TD=$WT/target/verif; else FLAGS=""; TD=$WT/target; fi
run_demo() { RUSTFLAGS="$FLAGS" CARGO_TARGET_DIR=$TD cargo test -p sentinel-core --test $NAME --offline -- --test-threads=1 2>&1 | grep -E "^test result|error(\[|:)" | head -3; }
base=$(run_demo)
git apply $M/$X.patch || { echo "CONFIRM $ID $X: patch does not apply"; exit 2; }
mut=$(run_demo)
suite=$(CARGO_TARGET_DIR=$WT/target cargo test --workspace --no-fail-fast --offline 2>&1 | grep -E "^test result" | head -1)
git checkout -q -- .
echo "CONFIRM $ID $X: demo-unchanged=[$base] demo-with-change=[$mut] suite-with-change=[$suite]"
