mod engine;
mod fam;
mod fsseam;
mod props;
mod refwin;
mod rng;
mod seams;
mod timegen;
mod world;

use engine::{BatchOpts, Prop};
use serde_json::json;

fn all_props() -> Vec<&'static dyn Prop> {
    props::all()
}

fn find(id: &str) -> &'static dyn Prop {
    match all_props().into_iter().find(|p| p.id() == id) {
        Some(p) => p,
        None => {
            eprintln!("unknown property {}", id);
            std::process::exit(2);
        }
    }
}

fn env_u64(k: &str) -> Option<u64> {
    std::env::var(k).ok().and_then(|v| v.parse().ok())
}

fn main() {
    let args: Vec<String> = std::env::args().collect();
    if args.len() < 2 {
        eprintln!("usage: seqsim batch <prop> quick|thorough | worker .. | one <prop> <file> | replay <file> | gen <prop> <idx>");
        std::process::exit(2);
    }
    match args[1].as_str() {
        "batch" => {
            let prop = find(&args[2]);
            let thorough = args.get(3).map(|s| s == "thorough").unwrap_or(false)
                || std::env::var("VERIF_TIER").map(|t| t == "thorough").unwrap_or(false) && args.get(3).is_none();
            let opts = BatchOpts {
                thorough,
                seed: env_u64("VERIF_SEED").unwrap_or(engine::DEFAULT_SEED),
                workers: env_u64("VERIF_WORKERS").unwrap_or(16).max(1),
                runs_override: env_u64("VERIF_RUNS"),
                wall_override: env_u64("VERIF_WALL_S"),
                write_evidence: std::env::var("VERIF_NO_EVIDENCE").is_err(),
                from: env_u64("VERIF_FROM").unwrap_or(0),
            };
            std::process::exit(engine::batch_main(prop, opts));
        }
        "worker" => {
            let prop = find(&args[2]);
            let p = |i: usize| args[i].parse::<u64>().unwrap();
            engine::worker_main(prop, p(3), p(4), p(5), p(6), args[7].parse::<u128>().unwrap(), args[8] == "1");
        }
        "one" => {
            let prop = find(&args[2]);
            let sc: serde_json::Value = serde_json::from_slice(&std::fs::read(&args[3]).expect("read scenario")).expect("parse scenario");
            let (v, th, cov, rw) = engine::one_main(prop, &sc);
            let out = match v {
                Some(v) => json!({"signature": v.signature, "detail": v.detail, "at_op": v.at_op, "trace_hash": th, "counters": cov.counters, "rewrite": rw}),
                None => json!({"signature": null, "detail": "", "at_op": -1, "trace_hash": th, "counters": cov.counters, "rewrite": rw}),
            };
            println!("RESULT {}", out);
        }
        "replay" => {
            std::process::exit(engine::replay_main(&all_props(), &args[2]));
        }
        "gen" => {
            let prop = find(&args[2]);
            let idx: u64 = args[3].parse().unwrap();
            let seed = env_u64("VERIF_SEED").unwrap_or(engine::DEFAULT_SEED);
            let sc = engine::make_scenario(prop, seed, idx, false);
            println!("{}", serde_json::to_string_pretty(&sc).unwrap());
        }
        "trace" => {
            // determinism protocol helper: print "idx tracehash" for a range, in this one process
            let prop = find(&args[2]);
            let p = |i: usize| args[i].parse::<u64>().unwrap();
            engine::trace_main(prop, env_u64("VERIF_SEED").unwrap_or(engine::DEFAULT_SEED), p(3), p(4), p(5));
        }
        "c19-kill" => {
            props::c19::kill_child_main(&args[2], args[3].parse().unwrap(), args[4].parse().unwrap(), &args[5]);
        }
        "c19-validate" => {
            let n: u64 = args.get(2).and_then(|x| x.parse().ok()).unwrap_or(40);
            std::process::exit(props::c19::validate_main(n, env_u64("VERIF_SEED").unwrap_or(engine::DEFAULT_SEED)));
        }
        x => {
            eprintln!("unknown command {}", x);
            std::process::exit(2);
        }
    }
}
