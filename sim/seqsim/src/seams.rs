//! Seams owned by the simulator at the OS boundary (no change to /repo):
//!  * `getrandom` — std's HashMap RandomState keys come from here, so hash iteration order
//!    (the order in which the rules of a resource are evaluated) is a seeded, replayable dimension;
//!  * panic hook — records message and location of a panic of the code under test.
//! The virtual clock itself is hook H1 in /repo (`utils::verif_clock`).

use crate::rng::splitmix64;
use std::cell::RefCell;
use std::sync::atomic::{AtomicU64, Ordering};

static ENV_SEED: AtomicU64 = AtomicU64::new(0x5eed_5eed_5eed_5eed);
static ENV_CTR: AtomicU64 = AtomicU64::new(0);
pub static GETRANDOM_CALLS: AtomicU64 = AtomicU64::new(0);

/// Sets the seed from which the next thread's RandomState keys (and everything else that asks the
/// OS for randomness) are derived.
pub fn set_env_seed(seed: u64) {
    ENV_SEED.store(seed, Ordering::SeqCst);
    ENV_CTR.store(0, Ordering::SeqCst);
}

fn fill(buf: *mut u8, len: usize) {
    let seed = ENV_SEED.load(Ordering::SeqCst);
    let mut i = 0usize;
    while i < len {
        let c = ENV_CTR.fetch_add(1, Ordering::SeqCst);
        let w = splitmix64(seed ^ c.wrapping_mul(0xA24BAED4963EE407));
        let bytes = w.to_le_bytes();
        let n = core::cmp::min(8, len - i);
        unsafe {
            core::ptr::copy_nonoverlapping(bytes.as_ptr(), buf.add(i), n);
        }
        i += n;
    }
}

#[no_mangle]
pub unsafe extern "C" fn getrandom(buf: *mut libc::c_void, buflen: libc::size_t, _flags: libc::c_uint) -> libc::ssize_t {
    GETRANDOM_CALLS.fetch_add(1, Ordering::SeqCst);
    fill(buf as *mut u8, buflen);
    buflen as libc::ssize_t
}

#[no_mangle]
pub unsafe extern "C" fn getentropy(buf: *mut libc::c_void, buflen: libc::size_t) -> libc::c_int {
    GETRANDOM_CALLS.fetch_add(1, Ordering::SeqCst);
    fill(buf as *mut u8, buflen);
    0
}

thread_local! {
    static LAST_PANIC: RefCell<Option<(String, String)>> = RefCell::new(None);
}

static VERBOSE_PANICS: std::sync::atomic::AtomicBool = std::sync::atomic::AtomicBool::new(false);

/// In one-scenario (confirmation / replay) processes every panic is also written to stderr, so
/// that the verdict can be classified even if the process aborts (panic while unwinding).
pub fn set_verbose_panics(v: bool) {
    VERBOSE_PANICS.store(v, Ordering::SeqCst);
}

/// Installs a quiet panic hook that remembers (location, message) of the FIRST panic since the
/// last `take_last_panic` per thread (later ones are usually consequences: poisoned locks, drops).
pub fn install_panic_hook() {
    std::panic::set_hook(Box::new(|info| {
        let loc = info
            .location()
            .map(|l| format!("{}:{}", l.file().trim_start_matches("/repo/"), l.line()))
            .unwrap_or_else(|| "?".into());
        let msg = if let Some(s) = info.payload().downcast_ref::<&str>() {
            s.to_string()
        } else if let Some(s) = info.payload().downcast_ref::<String>() {
            s.clone()
        } else {
            "<non-string panic>".into()
        };
        if VERBOSE_PANICS.load(Ordering::SeqCst) {
            eprintln!("PANIC at {}: {}", loc, msg.replace('\n', " "));
        }
        let _ = LAST_PANIC.try_with(|p| {
            if let Ok(mut g) = p.try_borrow_mut() {
                if g.is_none() {
                    *g = Some((loc, msg));
                }
            }
        });
    }));
}

pub fn take_last_panic() -> Option<(String, String)> {
    LAST_PANIC.with(|p| p.borrow_mut().take())
}

/// Virtual clock wrappers (hook H1).
pub mod vc {
    use sentinel_core::utils::verif_clock as h;
    pub fn enable(ns: u64) {
        h::enable(ns)
    }
    pub fn set(ns: u64) {
        h::set_ns(ns)
    }
    pub fn now_ns() -> u64 {
        h::now_ns().expect("virtual clock disabled")
    }
    pub fn now_ms() -> u64 {
        now_ns() / 1_000_000
    }
    pub fn advance(ns: u64) {
        h::advance_ns(ns);
    }
    pub fn slept() -> (u64, u64) {
        h::slept()
    }
    pub fn reset_slept() {
        h::reset_slept()
    }
}
