//! Uniform access to the five rule managers (used by C10, C11, C12).

use crate::world::{BreakerSpec, FlowSpec, HotspotSpec, IsoSpec, SysSpec};
use sentinel_core::base::SentinelRule;
use sentinel_core::{circuitbreaker as cb, flow, hotspot, isolation, system};
use serde::{Deserialize, Serialize};

#[derive(Serialize, Deserialize, Clone, Debug, PartialEq)]
#[serde(tag = "fam")]
pub enum AnySpec {
    Flow(FlowSpec),
    Breaker(BreakerSpec),
    Hot(HotspotSpec),
    Iso(IsoSpec),
    Sys(SysSpec),
}

pub const FAMILIES: [&str; 5] = ["flow", "breaker", "hotspot", "isolation", "system"];

impl AnySpec {
    pub fn fam(&self) -> usize {
        match self {
            AnySpec::Flow(_) => 0,
            AnySpec::Breaker(_) => 1,
            AnySpec::Hot(_) => 2,
            AnySpec::Iso(_) => 3,
            AnySpec::Sys(_) => 4,
        }
    }
    /// resource the rule belongs to ("" for system rules, which are global)
    pub fn res(&self) -> String {
        match self {
            AnySpec::Flow(s) => s.res.clone(),
            AnySpec::Breaker(s) => s.res.clone(),
            AnySpec::Hot(s) => s.res.clone(),
            AnySpec::Iso(s) => s.res.clone(),
            AnySpec::Sys(_) => String::new(),
        }
    }
    pub fn id(&self) -> &str {
        match self {
            AnySpec::Flow(s) => &s.id,
            AnySpec::Breaker(s) => &s.id,
            AnySpec::Hot(s) => &s.id,
            AnySpec::Iso(s) => &s.id,
            AnySpec::Sys(s) => &s.id,
        }
    }
    pub fn set_id(&mut self, id: String) {
        match self {
            AnySpec::Flow(s) => s.id = id,
            AnySpec::Breaker(s) => s.id = id,
            AnySpec::Hot(s) => s.id = id,
            AnySpec::Iso(s) => s.id = id,
            AnySpec::Sys(s) => s.id = id,
        }
    }
    /// moves an f64 threshold to the adjacent representable value (false: the family has integer thresholds)
    pub fn nudge_threshold(&mut self) -> bool {
        let up = |x: f64| f64::from_bits(x.to_bits() + 1);
        match self {
            AnySpec::Flow(s) if s.threshold > 0.0 => s.threshold = up(s.threshold),
            AnySpec::Breaker(s) if s.threshold > 0.0 => s.threshold = up(s.threshold),
            AnySpec::Sys(s) if s.threshold > 0.0 => s.threshold = up(s.threshold),
            _ => return false,
        }
        true
    }
    /// validity as decided by the family's validity check
    pub fn is_valid(&self) -> bool {
        match self {
            AnySpec::Flow(s) => s.rule().is_valid().is_ok(),
            AnySpec::Breaker(s) => s.rule().is_valid().is_ok(),
            AnySpec::Hot(s) => s.rule().is_valid().is_ok(),
            AnySpec::Iso(s) => s.rule().is_valid().is_ok(),
            AnySpec::Sys(s) => s.rule().is_valid().is_ok(),
        }
    }
    /// Rule equality of the family, restated on the specifications (NOT the library's `==`, so that a
    /// broken equality in the library is visible): two rules are the same rule iff every field that
    /// takes part in enforcing them is equal; the id never matters. Fields that have no effect for the
    /// rule's strategy are ignored as documented on the rule types (breaker: max_allowed_rt only for
    /// the slow-request strategy; hotspot: burst only for Reject, max queueing time only for Throttling, both for a custom control strategy).
    pub fn same_rule(&self, o: &AnySpec) -> bool {
        match (self, o) {
            (AnySpec::Flow(a), AnySpec::Flow(b)) => {
                let mut x = a.clone();
                x.id = b.id.clone();
                x == *b
            }
            (AnySpec::Breaker(a), AnySpec::Breaker(b)) => {
                a.res == b.res
                    && a.strategy == b.strategy
                    && a.retry_ms == b.retry_ms
                    && a.min_req == b.min_req
                    && a.interval_ms == b.interval_ms
                    && a.buckets == b.buckets
                    && a.threshold == b.threshold
                    && (a.strategy != 0 || a.max_rt == b.max_rt)
            }
            (AnySpec::Hot(a), AnySpec::Hot(b)) => {
                let mut sa = a.specific.clone();
                let mut sb = b.specific.clone();
                sa.sort();
                sb.sort();
                a.res == b.res
                    && a.metric == b.metric
                    && a.ctrl == b.ctrl
                    && a.capacity == b.capacity
                    && a.index == b.index
                    && a.key == b.key
                    && a.threshold == b.threshold
                    && a.duration_s == b.duration_s
                    && sa == sb
                    && match a.ctrl {
                        0 => a.burst == b.burst,
                        1 => a.max_queue_ms == b.max_queue_ms,
                        // a custom strategy may read either field
                        _ => a.burst == b.burst && a.max_queue_ms == b.max_queue_ms,
                    }
            }
            (AnySpec::Iso(a), AnySpec::Iso(b)) => a.res == b.res && a.threshold == b.threshold,
            (AnySpec::Sys(a), AnySpec::Sys(b)) => a.metric == b.metric && a.threshold == b.threshold && a.bbr == b.bbr,
            _ => false,
        }
    }
    /// the library's own equality (used where the harness must predict what the library considers equal)
    pub fn lib_eq(&self, o: &AnySpec) -> bool {
        match (self, o) {
            (AnySpec::Flow(a), AnySpec::Flow(b)) => *a.rule() == *b.rule(),
            (AnySpec::Breaker(a), AnySpec::Breaker(b)) => *a.rule() == *b.rule(),
            (AnySpec::Hot(a), AnySpec::Hot(b)) => *a.rule() == *b.rule(),
            (AnySpec::Iso(a), AnySpec::Iso(b)) => *a.rule() == *b.rule(),
            (AnySpec::Sys(a), AnySpec::Sys(b)) => *a.rule() == *b.rule(),
            _ => false,
        }
    }
}

/// what a manager reports / enforces: id and complete fingerprint
#[derive(Clone, Debug, PartialEq)]
pub struct Seen {
    pub id: String,
    pub debug: String,
}

// `debug` is a complete fingerprint of the rule (every field, id included; override tables sorted):
// reported rules are matched to pool entries by it, so two pool entries may share an id
fn seen_flow(r: &flow::Rule) -> Seen {
    Seen {
        id: r.id.clone(),
        debug: format!(
            "flow[{} res={} ref={} thr={} iv={} ctrl={:?} calc={:?} rel={:?} warm={}/{} q={} mem={}/{}/{}/{}]",
            r.id,
            r.resource,
            r.ref_resource,
            r.threshold,
            r.stat_interval_ms,
            r.control_strategy,
            r.calculate_strategy,
            r.relation_strategy,
            r.warm_up_period_sec,
            r.warm_up_cold_factor,
            r.max_queueing_time_ms,
            r.low_mem_usage_threshold,
            r.high_mem_usage_threshold,
            r.mem_low_water_mark,
            r.mem_high_water_mark
        ),
    }
}
fn seen_cb(r: &cb::Rule) -> Seen {
    Seen {
        id: r.id.clone(),
        debug: format!(
            "breaker[{} res={} {:?} thr={} retry={} min={} iv={} buckets={} maxrt={}]",
            r.id, r.resource, r.strategy, r.threshold, r.retry_timeout_ms, r.min_request_amount, r.stat_interval_ms, r.stat_sliding_window_bucket_count, r.max_allowed_rt_ms
        ),
    }
}
fn seen_hot(r: &hotspot::Rule) -> Seen {
    let mut items: Vec<(String, u64)> = r.specific_items.iter().map(|(k, v)| (format!("{:?}", k), *v)).collect();
    items.sort();
    Seen {
        id: r.id.clone(),
        debug: format!(
            "hotspot[{} res={} {:?} {:?} thr={} idx={} key={} d={} q={} burst={} cap={} items={:?}]",
            r.id, r.resource, r.metric_type, r.control_strategy, r.threshold, r.param_index, r.param_key, r.duration_in_sec, r.max_queueing_time_ms, r.burst_count, r.params_max_capacity, items
        ),
    }
}
fn seen_iso(r: &isolation::Rule) -> Seen {
    Seen { id: r.id.clone(), debug: format!("isolation[{} res={} {:?} thr={}]", r.id, r.resource, r.metric_type, r.threshold) }
}
fn seen_sys(r: &system::Rule) -> Seen {
    Seen { id: r.id.clone(), debug: format!("system[{} {:?} thr={} {:?}]", r.id, r.metric_type, r.threshold, r.strategy) }
}

impl AnySpec {
    /// the fingerprint the library would report for this specification
    pub fn fingerprint(&self) -> String {
        match self {
            AnySpec::Flow(s) => seen_flow(&s.rule()).debug,
            AnySpec::Breaker(s) => seen_cb(&s.rule()).debug,
            AnySpec::Hot(s) => seen_hot(&s.rule()).debug,
            AnySpec::Iso(s) => seen_iso(&s.rule()).debug,
            AnySpec::Sys(s) => seen_sys(&s.rule()).debug,
        }
    }
}

macro_rules! rules_of {
    ($specs:expr, $variant:ident) => {
        $specs
            .iter()
            .filter_map(|s| if let AnySpec::$variant(x) = s { Some(x.rule()) } else { None })
            .collect::<Vec<_>>()
    };
}

/// load-all; returns the manager's "did change" answer where the family gives one
pub fn load_all(fam: usize, specs: &[AnySpec]) -> Option<bool> {
    match fam {
        0 => Some(flow::load_rules(rules_of!(specs, Flow))),
        1 => Some(cb::load_rules(rules_of!(specs, Breaker))),
        2 => Some(hotspot::load_rules(rules_of!(specs, Hot))),
        3 => {
            isolation::load_rules(rules_of!(specs, Iso));
            None
        }
        _ => {
            system::load_rules(rules_of!(specs, Sys));
            None
        }
    }
}

pub fn load_res(fam: usize, res: &String, specs: &[AnySpec]) -> Option<Result<bool, String>> {
    let m = |r: sentinel_core::Result<bool>| r.map_err(|e| e.to_string());
    match fam {
        0 => Some(m(flow::load_rules_of_resource(res, rules_of!(specs, Flow)))),
        1 => Some(m(cb::load_rules_of_resource(res, rules_of!(specs, Breaker)))),
        2 => Some(m(hotspot::load_rules_of_resource(res, rules_of!(specs, Hot)))),
        3 => Some(m(isolation::load_rules_of_resource(res, rules_of!(specs, Iso)))),
        _ => None,
    }
}

pub fn append(spec: &AnySpec) -> bool {
    match spec {
        AnySpec::Flow(s) => flow::append_rule(s.rule()),
        AnySpec::Breaker(s) => cb::append_rule(s.rule()),
        AnySpec::Hot(s) => hotspot::append_rule(s.rule()),
        AnySpec::Iso(s) => isolation::append_rule(s.rule()),
        AnySpec::Sys(s) => system::append_rule(s.rule()),
    }
}

pub fn clear(fam: usize) {
    match fam {
        0 => flow::clear_rules(),
        1 => cb::clear_rules(),
        2 => hotspot::clear_rules(),
        3 => isolation::clear_rules(),
        _ => system::clear_rules(),
    }
}

pub fn clear_res(fam: usize, res: &String) -> bool {
    match fam {
        0 => flow::clear_rules_of_resource(res),
        1 => cb::clear_rules_of_resource(res),
        2 => hotspot::clear_rules_of_resource(res),
        3 => isolation::clear_rules_of_resource(res),
        _ => return false,
    }
    true
}

pub fn get_all(fam: usize) -> Vec<Seen> {
    match fam {
        0 => flow::get_rules().iter().map(|r| seen_flow(r)).collect(),
        1 => cb::get_rules().iter().map(|r| seen_cb(r)).collect(),
        2 => hotspot::get_rules().iter().map(|r| seen_hot(r)).collect(),
        3 => isolation::get_rules().iter().map(|r| seen_iso(r)).collect(),
        _ => system::get_rules().iter().map(|r| seen_sys(r)).collect(),
    }
}

pub fn get_res(fam: usize, res: &String) -> Option<Vec<Seen>> {
    Some(match fam {
        0 => flow::get_rules_of_resource(res).iter().map(|r| seen_flow(r)).collect(),
        1 => cb::get_rules_of_resource(res).iter().map(|r| seen_cb(r)).collect(),
        2 => hotspot::get_rules_of_resource(res).iter().map(|r| seen_hot(r)).collect(),
        3 => isolation::get_rules_of_resource(res).iter().map(|r| seen_iso(r)).collect(),
        _ => return None,
    })
}

/// rules of the live controller / breaker list that the slots consult (None: the family has no
/// separate structure, the slot reads the reported rules directly)
pub fn enforced_res(fam: usize, res: &String) -> Option<Vec<Seen>> {
    match fam {
        0 => Some(flow::get_traffic_controller_list_for(res).iter().map(|t| seen_flow(t.rule())).collect()),
        1 => Some(cb::get_breakers_of_resource(res).iter().map(|b| seen_cb(b.bound_rule())).collect()),
        2 => Some(hotspot::get_traffic_controller_list_for(res).iter().map(|t| seen_hot(t.rule())).collect()),
        _ => None,
    }
}
