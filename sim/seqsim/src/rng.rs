//! Own PRNG (splitmix64 seeding, xoshiro256**). No external crate whose stream could change.

#[inline]
pub fn splitmix64(x: u64) -> u64 {
    let mut z = x.wrapping_add(0x9E3779B97F4A7C15);
    z = (z ^ (z >> 30)).wrapping_mul(0xBF58476D1CE4E5B9);
    z = (z ^ (z >> 27)).wrapping_mul(0x94D049BB133111EB);
    z ^ (z >> 31)
}

pub fn fnv1a(bytes: &[u8]) -> u64 {
    let mut h: u64 = 0xcbf29ce484222325;
    for b in bytes {
        h ^= *b as u64;
        h = h.wrapping_mul(0x100000001b3);
    }
    h
}

#[derive(Clone, Debug)]
pub struct Rng {
    s: [u64; 4],
}

impl Rng {
    pub fn new(seed: u64) -> Rng {
        let mut x = seed;
        let mut s = [0u64; 4];
        for v in s.iter_mut() {
            x = splitmix64(x);
            *v = x;
        }
        if s == [0, 0, 0, 0] {
            s[0] = 1;
        }
        Rng { s }
    }

    #[inline]
    pub fn next_u64(&mut self) -> u64 {
        let result = self.s[1].wrapping_mul(5).rotate_left(7).wrapping_mul(9);
        let t = self.s[1] << 17;
        self.s[2] ^= self.s[0];
        self.s[3] ^= self.s[1];
        self.s[1] ^= self.s[2];
        self.s[0] ^= self.s[3];
        self.s[2] ^= t;
        self.s[3] = self.s[3].rotate_left(45);
        result
    }

    /// uniform in [0, n) ; n > 0
    #[inline]
    pub fn below(&mut self, n: u64) -> u64 {
        debug_assert!(n > 0);
        // multiply-shift, bias negligible for our n
        ((self.next_u64() as u128 * n as u128) >> 64) as u64
    }

    /// uniform in [lo, hi] inclusive
    #[inline]
    pub fn range(&mut self, lo: u64, hi: u64) -> u64 {
        lo + self.below(hi - lo + 1)
    }

    #[inline]
    pub fn chance(&mut self, num: u64, den: u64) -> bool {
        self.below(den) < num
    }

    #[inline]
    pub fn pick<'a, T>(&mut self, xs: &'a [T]) -> &'a T {
        &xs[self.below(xs.len() as u64) as usize]
    }

    /// index chosen with the given integer weights
    pub fn weighted(&mut self, w: &[u64]) -> usize {
        let total: u64 = w.iter().sum();
        let mut x = self.below(total.max(1));
        for (i, wi) in w.iter().enumerate() {
            if x < *wi {
                return i;
            }
            x -= *wi;
        }
        w.len() - 1
    }

    pub fn shuffle<T>(&mut self, xs: &mut [T]) {
        for i in (1..xs.len()).rev() {
            let j = self.below(i as u64 + 1) as usize;
            xs.swap(i, j);
        }
    }

    pub fn fork(&mut self) -> Rng {
        Rng::new(self.next_u64())
    }
}

/// Incremental trace hasher (FNV-1a over the words fed in). Never reads clocks or PRNG.
#[derive(Clone, Debug)]
pub struct Trace {
    h: u64,
    pub len: u64,
}

impl Default for Trace {
    fn default() -> Self {
        Trace {
            h: 0xcbf29ce484222325,
            len: 0,
        }
    }
}

impl Trace {
    #[inline]
    pub fn word(&mut self, w: u64) {
        for i in 0..8 {
            self.h ^= (w >> (i * 8)) & 0xff;
            self.h = self.h.wrapping_mul(0x100000001b3);
        }
        self.len += 1;
    }
    pub fn str(&mut self, s: &str) {
        self.word(fnv1a(s.as_bytes()));
    }
    pub fn hash(&self) -> u64 {
        self.h
    }
}
