//! The boundary-biased time generator (DESIGN §3.2): the heart of the fault model for time.
use crate::rng::Rng;

/// A forward step in ms from `now_ms`, biased towards bucket/window boundaries of a window with
/// bucket length `l` and interval `i` (both ms).
pub fn dt_ms(rng: &mut Rng, now_ms: u64, l: u64, i: u64) -> u64 {
    let l = l.max(1);
    let i = i.max(1);
    let to_next = l - now_ms % l; // 1..=l
    match rng.weighted(&[14, 10, 10, 6, 6, 8, 6, 6, 5, 10, 8, 4, 2, 1]) {
        0 => 0,
        1 => 1,
        2 => to_next,                     // exactly on the next bucket boundary
        3 => to_next.saturating_sub(1),   // last ms of this bucket
        4 => to_next + 1,                 // first ms after the boundary
        5 => i / 2,
        6 => i,
        7 => i + l,
        8 => i - (now_ms % i),            // exact multiple of the whole interval
        9 => rng.range(0, l),
        10 => rng.range(0, 3 * i),
        11 => rng.range(1, 4) * i + to_next,
        12 => 10_000 + rng.range(0, 20_000), // whole 10 s ring expired
        _ => rng.range(60_000, 1_800_000), // 1 to 30 minutes idle
    }
}

/// a phase inside the epoch slot: 1/4 aligned to 10 s, else random ms (+ sub-ms part for ns users)
pub fn phase_ns(rng: &mut Rng, max_ms: u64) -> u64 {
    if rng.chance(1, 4) {
        rng.below(max_ms / 10_000 + 1) * 10_000 * 1_000_000
    } else if rng.chance(1, 3) {
        rng.below(max_ms / 500 + 1) * 500 * 1_000_000
    } else {
        rng.below(max_ms) * 1_000_000 + if rng.chance(1, 2) { rng.below(1_000_000) } else { 0 }
    }
}
