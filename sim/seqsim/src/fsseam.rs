//! File-system seam for C19, taken at the libc boundary inside the simulator binary (no change
//! to /repo): `write`, `open64`/`open` and `unlink` are interposed; while recording is on, every
//! operation that touches a path below the run's scratch directory is appended — in program
//! order — to an operation log (creations, removals, and every written byte). Everything else is
//! forwarded untouched through raw system calls. The log is what crash prefixes are cut from.

use std::ffi::CStr;
use std::sync::atomic::{AtomicBool, AtomicI64, AtomicUsize, Ordering};

#[derive(Clone, Debug, PartialEq)]
pub enum FsOp {
    Create(String),
    Unlink(String),
    Write(String, Vec<u8>),
}

static RECORDING: AtomicBool = AtomicBool::new(false);
static BUSY: AtomicBool = AtomicBool::new(false);
/// kill mode (validation of the crash synthesis): the process really dies at operation KILL_AT of the
/// tracked operations, after KILL_EXTRA bytes of it if it is a write. -1 = off.
static KILL_AT: AtomicI64 = AtomicI64::new(-1);
static KILL_EXTRA: AtomicUsize = AtomicUsize::new(0);
static OPCOUNT: AtomicUsize = AtomicUsize::new(0);
/// injected I/O faults on tracked files (legal behaviour of write(2) that reports no failure to a
/// correct caller): a short write (only a prefix is taken) or EINTR. Rate in 1/1000 per call, 0 = off.
static FAULT_RATE: AtomicUsize = AtomicUsize::new(0);
static FAULT_STATE: std::sync::atomic::AtomicU64 = std::sync::atomic::AtomicU64::new(0);
static SHORT_WRITES: AtomicUsize = AtomicUsize::new(0);
static EINTRS: AtomicUsize = AtomicUsize::new(0);
static mut PREFIX: Option<String> = None;
static mut LOG: Option<Vec<FsOp>> = None;

pub fn start(prefix: &str) {
    unsafe {
        PREFIX = Some(prefix.to_string());
        LOG = Some(Vec::new());
    }
    OPCOUNT.store(0, Ordering::SeqCst);
    FAULT_RATE.store(0, Ordering::SeqCst);
    SHORT_WRITES.store(0, Ordering::SeqCst);
    EINTRS.store(0, Ordering::SeqCst);
    RECORDING.store(true, Ordering::SeqCst);
}

/// switches fault injection on for the current recording (own PRNG stream: one seed, one fault sequence)
pub fn set_faults(seed: u64, rate_per_1000: usize) {
    FAULT_STATE.store(seed | 1, Ordering::SeqCst);
    FAULT_RATE.store(rate_per_1000, Ordering::SeqCst);
}

/// (short writes, EINTR results) injected since `start`
pub fn fault_counts() -> (usize, usize) {
    (SHORT_WRITES.load(Ordering::SeqCst), EINTRS.load(Ordering::SeqCst))
}

fn fault_draw() -> u64 {
    // xorshift64*: only ever called from the single simulated caller
    let mut x = FAULT_STATE.load(Ordering::SeqCst);
    x ^= x >> 12;
    x ^= x << 25;
    x ^= x >> 27;
    FAULT_STATE.store(x, Ordering::SeqCst);
    x.wrapping_mul(0x2545_F491_4F6C_DD1D)
}

/// the process will `_exit` at tracked operation `nops` (before it; for a write: after `extra` bytes of it)
pub fn set_kill(nops: usize, extra: usize) {
    KILL_EXTRA.store(extra, Ordering::SeqCst);
    KILL_AT.store(nops as i64, Ordering::SeqCst);
}

fn die_here() -> bool {
    KILL_AT.load(Ordering::SeqCst) == OPCOUNT.load(Ordering::SeqCst) as i64
}

unsafe fn die() -> ! {
    libc::syscall(libc::SYS_exit_group, 0);
    loop {}
}

pub fn stop() -> Vec<FsOp> {
    RECORDING.store(false, Ordering::SeqCst);
    unsafe {
        PREFIX = None;
        LOG.take().unwrap_or_default()
    }
}

fn record(op: FsOp) {
    OPCOUNT.fetch_add(1, Ordering::SeqCst);
    // single simulated caller at a time; BUSY guards against re-entrance from allocation paths
    if BUSY.swap(true, Ordering::SeqCst) {
        return;
    }
    unsafe {
        if let Some(l) = LOG.as_mut() {
            l.push(op);
        }
    }
    BUSY.store(false, Ordering::SeqCst);
}

fn tracked(path: &str) -> bool {
    unsafe { PREFIX.as_ref().map(|p| path.starts_with(p.as_str())).unwrap_or(false) }
}

fn fd_path(fd: libc::c_int) -> Option<String> {
    let link = format!("/proc/self/fd/{}\0", fd);
    let mut buf = [0u8; 512];
    let n = unsafe { libc::syscall(libc::SYS_readlink, link.as_ptr(), buf.as_mut_ptr(), buf.len()) };
    if n <= 0 {
        return None;
    }
    Some(String::from_utf8_lossy(&buf[..n as usize]).to_string())
}

#[no_mangle]
pub unsafe extern "C" fn write(fd: libc::c_int, buf: *const libc::c_void, count: libc::size_t) -> libc::ssize_t {
    let mut count = count;
    let mut path: Option<String> = None;
    if fd > 2 && count > 0 && RECORDING.load(Ordering::SeqCst) && !BUSY.load(Ordering::SeqCst) {
        path = fd_path(fd).filter(|p| tracked(p));
    }
    if path.is_some() {
        let rate = FAULT_RATE.load(Ordering::SeqCst) as u64;
        if rate > 0 {
            let d = fault_draw();
            if d % 1000 < rate {
                if (d >> 20) % 4 == 0 {
                    EINTRS.fetch_add(1, Ordering::SeqCst);
                    *libc::__errno_location() = libc::EINTR;
                    return -1;
                } else if count > 1 {
                    SHORT_WRITES.fetch_add(1, Ordering::SeqCst);
                    count = 1 + ((d >> 24) as usize % (count - 1));
                }
            }
        }
        if die_here() {
            let n = KILL_EXTRA.load(Ordering::SeqCst).min(count);
            if n > 0 {
                libc::syscall(libc::SYS_write, fd, buf, n);
            }
            die();
        }
    }
    let r = libc::syscall(libc::SYS_write, fd, buf, count) as libc::ssize_t;
    if r > 0 {
        if let Some(p) = path {
            let bytes = std::slice::from_raw_parts(buf as *const u8, r as usize).to_vec();
            record(FsOp::Write(p, bytes));
        }
    }
    r
}

unsafe fn do_open(path: *const libc::c_char, flags: libc::c_int, mode: libc::mode_t) -> libc::c_int {
    if (flags & libc::O_CREAT) != 0 && RECORDING.load(Ordering::SeqCst) && !BUSY.load(Ordering::SeqCst) && die_here() {
        if CStr::from_ptr(path).to_str().map(tracked).unwrap_or(false) {
            die();
        }
    }
    let r = libc::syscall(libc::SYS_openat, libc::AT_FDCWD, path, flags | libc::O_LARGEFILE, mode as libc::c_uint) as libc::c_int;
    if r >= 0 && (flags & libc::O_CREAT) != 0 && RECORDING.load(Ordering::SeqCst) && !BUSY.load(Ordering::SeqCst) {
        if let Ok(p) = CStr::from_ptr(path).to_str() {
            if tracked(p) {
                record(FsOp::Create(p.to_string()));
            }
        }
    }
    r
}

#[no_mangle]
pub unsafe extern "C" fn open64(path: *const libc::c_char, flags: libc::c_int, mode: libc::mode_t) -> libc::c_int {
    do_open(path, flags, mode)
}

#[no_mangle]
pub unsafe extern "C" fn open(path: *const libc::c_char, flags: libc::c_int, mode: libc::mode_t) -> libc::c_int {
    do_open(path, flags, mode)
}

#[no_mangle]
pub unsafe extern "C" fn unlink(path: *const libc::c_char) -> libc::c_int {
    if RECORDING.load(Ordering::SeqCst) && !BUSY.load(Ordering::SeqCst) && die_here() {
        // only an unlink that would succeed is an operation of the log
        if CStr::from_ptr(path).to_str().map(tracked).unwrap_or(false) && libc::syscall(libc::SYS_faccessat, libc::AT_FDCWD, path, libc::F_OK, 0) == 0 {
            die();
        }
    }
    let r = libc::syscall(libc::SYS_unlinkat, libc::AT_FDCWD, path, 0) as libc::c_int;
    if r == 0 && RECORDING.load(Ordering::SeqCst) && !BUSY.load(Ordering::SeqCst) {
        if let Ok(p) = CStr::from_ptr(path).to_str() {
            if tracked(p) {
                record(FsOp::Unlink(p.to_string()));
            }
        }
    }
    r
}

/// total number of crash points of a log: one before each op, one after each written byte
pub fn payload_bytes(log: &[FsOp]) -> usize {
    log.iter().map(|o| if let FsOp::Write(_, b) = o { b.len() } else { 0 }).sum()
}

/// Materialises, under `dst_dir`, the directory state after the first `nops` operations of the
/// log plus `extra` bytes of operation `nops` (if that is a write): a prefix, in program order,
/// of what the writer had issued. Paths are re-rooted from `src_prefix` to `dst_dir`.
pub fn synthesize(log: &[FsOp], nops: usize, extra: usize, src_prefix: &str, dst_dir: &str) -> std::collections::BTreeMap<String, Vec<u8>> {
    use std::collections::BTreeMap;
    let mut files: BTreeMap<String, Vec<u8>> = BTreeMap::new();
    let rel = |p: &str| p[src_prefix.len()..].to_string();
    for (i, op) in log.iter().enumerate() {
        if i > nops {
            break;
        }
        match op {
            FsOp::Create(p) if i < nops => {
                files.insert(rel(p), vec![]);
            }
            FsOp::Unlink(p) if i < nops => {
                files.remove(&rel(p));
            }
            FsOp::Write(p, b) => {
                let n = if i < nops { b.len() } else { extra.min(b.len()) };
                if n > 0 || i < nops {
                    files.entry(rel(p)).or_default().extend_from_slice(&b[..n]);
                }
            }
            _ => {}
        }
    }
    let _ = std::fs::remove_dir_all(dst_dir);
    std::fs::create_dir_all(dst_dir).expect("mkdir synth");
    for (name, content) in &files {
        std::fs::write(format!("{}{}", dst_dir, name), content).expect("write synth");
    }
    files
}
