//! RefWin: the statement's "events whose time bucket lies in the window", computed directly from
//! a recorded event list. bs_L(t) = t - t mod L. W(t; I, L) = events with
//! bs_L(t) - I + L <= bs_L(t_e) <= bs_L(t).

#[derive(Clone, Copy, Debug, PartialEq, Eq)]
pub enum K {
    Pass = 0,
    Block = 1,
    Complete = 2,
    Error = 3,
    Rt = 4,
}

#[derive(Default, Clone, Debug)]
pub struct RefWin {
    pub ev: Vec<(u64, u8, u64)>,
}

#[inline]
pub fn bs(t: u64, l: u64) -> u64 {
    t - t % l
}

impl RefWin {
    pub fn add(&mut self, t_ms: u64, kind: K, n: u64) {
        debug_assert!(self.ev.last().map(|e| e.0 <= t_ms).unwrap_or(true));
        self.ev.push((t_ms, kind as u8, n));
    }
    pub fn clear(&mut self) {
        self.ev.clear();
    }
    #[inline]
    fn in_win(te: u64, t: u64, i: u64, l: u64) -> bool {
        let hi = bs(t, l) as i128;
        let lo = hi - i as i128 + l as i128;
        let b = bs(te, l) as i128;
        lo <= b && b <= hi
    }
    pub fn sum(&self, t: u64, i: u64, l: u64, kind: K) -> u64 {
        let mut s = 0;
        for (te, k, n) in self.ev.iter().rev() {
            if *te + i + l < t {
                break;
            }
            if *k == kind as u8 && Self::in_win(*te, t, i, l) {
                s += *n;
            }
        }
        s
    }
    /// minimum single rt in window, capped by `cap`
    pub fn min_rt(&self, t: u64, i: u64, l: u64, cap: u64) -> u64 {
        let mut m = cap;
        for (te, k, n) in self.ev.iter().rev() {
            if *te + i + l < t {
                break;
            }
            if *k == K::Rt as u8 && Self::in_win(*te, t, i, l) {
                m = m.min(*n);
            }
        }
        m
    }
    /// max over buckets in the window of the per-bucket sum of `kind`
    pub fn max_bucket(&self, t: u64, i: u64, l: u64, kind: K) -> u64 {
        let mut per: std::collections::BTreeMap<u64, u64> = Default::default();
        for (te, k, n) in self.ev.iter().rev() {
            if *te + i + l < t {
                break;
            }
            if *k == kind as u8 && Self::in_win(*te, t, i, l) {
                *per.entry(bs(*te, l)).or_insert(0) += *n;
            }
        }
        per.values().copied().max().unwrap_or(0)
    }
}
