//! C07 — throttling paces admissions, bounds queueing and really delays the caller.

use crate::engine::{shrink_ops, Budget, Cov, Prop, RunResult, Violation};
use crate::rng::{Rng, Trace};
use crate::timegen;
use crate::world::{FlowSpec, HotspotSpec, World, MS, SEC};
use sentinel_core::base::{StatNode, TokenResult};
use sentinel_core::{flow, hotspot, stat};
use serde::{Deserialize, Serialize};
use serde_json::{json, Value};
use std::collections::HashMap;
use std::sync::Arc;

#[derive(Serialize, Deserialize, Clone, Debug)]
#[serde(tag = "t")]
pub enum Op {
    /// v: parameter value index (hotspot); sleep: in direct mode, whether the simulated caller sleeps the announced wait
    Req { n: u32, v: u8, sleep: bool },
    Adv { ns: u64 },
}

#[derive(Serialize, Deserialize, Clone, Debug)]
pub struct Scn {
    pub epoch_ns: u64,
    pub res: String,
    pub flow: Option<FlowSpec>,
    /// optional second throttling rule on the same resource (observed through build() only): the
    /// caller must be held for every rule's schedule, in whatever order the rules are consulted
    #[serde(default)]
    pub flow2: Option<FlowSpec>,
    pub hot: Option<HotspotSpec>,
    /// observe through Controller::perform_checking (no sleep) instead of EntryBuilder::build()
    pub direct: bool,
    pub ops: Vec<Op>,
}

pub struct C07;

impl Prop for C07 {
    fn id(&self) -> &'static str {
        "C07"
    }
    fn gap_ns(&self) -> u64 {
        7_200 * SEC
    }
    fn budget(&self, thorough: bool) -> Budget {
        if thorough {
            Budget { runs: 250_000, wall_s: 240 }
        } else {
            Budget { runs: 5_000, wall_s: 30 }
        }
    }
    fn rule_text(&self) -> &'static str {
        "seeded scenarios with one throttling rule: flow direct/throttling (rate 0..1000 incl. fractional per 100..10000 ms, max queueing 0..2000 ms, ns clock) or hotspot QPS/throttling (1-3 parameter values, ms clock); 20-80 requests/advances with bursts at one instant and arrivals at the scheduled slot +-{0, 1 ns, 1 ms}, spacing/2, the queueing limit +-1; observed through Controller::perform_checking (Pass/Wait/Blocked; the simulated caller sleeps the announced wait or not, so queues build up) or EntryBuilder::build() (virtual clock read before/after). Oracles: spacing of scheduled times, queueing bound both ways, threshold 0 / batch > threshold rejected, clock really moved to the scheduled time. Non-trivial = a queued (waiting) admission and a rejection; distinct = distinct trace hash."
    }
    fn components(&self) -> Value {
        json!({"real": ["sentinel-core: EntryBuilder, slot chain, flow ThrottlingChecker + flow slot, hotspot ThrottlingChecker + hotspot slot, utils::sleep_for_ns"],
               "stub": ["clock and sleep (virtual, hook H1: a sleep advances the clock)", "getrandom (seeded)", "logger (a sink that formats every record of the library and discards it)"]})
    }

    fn generate(&self, rng: &mut Rng, slot_ns: u64, _avoid: bool) -> Value {
        let is_flow = rng.chance(3, 5);
        let mut epoch_ns = slot_ns + timegen::phase_ns(rng, 20_000);
        if !is_flow {
            epoch_ns -= epoch_ns % MS;
        }
        let res = format!("c07_{:x}", rng.below(0xffffff));
        let maxq_ms = *rng.pick(&[0u64, 0, 1, 5, 10, 50, 100, 500, 2000]);
        let (flowspec, hot, spacing_ns) = if is_flow {
            let interval_ms = *rng.pick(&[0u32, 100, 200, 500, 1000, 1000, 3000, 10_000]);
            let thr = match rng.below(10) {
                0 => 0.0,
                1 => 2.5,
                2 => 0.5,
                3 => 1000.0,
                _ => *rng.pick(&[1.0f64, 2.0, 3.0, 5.0, 10.0, 20.0, 100.0, 7.0]),
            };
            let f = FlowSpec { ctrl: 1, max_queue_ms: maxq_ms as u32, ..FlowSpec::reject("thr", &res, thr, interval_ms) };
            let iv = if interval_ms == 0 { 1000 } else { interval_ms } as f64 * 1e6;
            let sp = if thr > 0.0 { (iv / thr) as u64 } else { 1_000_000 };
            (Some(f), None, sp)
        } else {
            let q = if rng.chance(1, 12) { 0 } else { *rng.pick(&[1u64, 2, 3, 5, 10, 50, 100, 1000]) };
            let d = rng.range(1, 3);
            let h = HotspotSpec {
                id: "hthr".into(),
                res: res.clone(),
                metric: 1,
                ctrl: 1,
                index: 0,
                key: String::new(),
                threshold: q,
                max_queue_ms: maxq_ms,
                burst: 0,
                duration_s: d,
                capacity: *rng.pick(&[0usize, 8]),
                specific: if rng.chance(1, 4) { vec![("p1".to_string(), rng.range(1, 20))] } else { vec![] },
            };
            let sp = if q > 0 { d * 1000 * MS / q } else { MS };
            (None, Some(h), sp.max(MS))
        };
        let mut direct = rng.chance(1, 2);
        let mut flow2 = None;
        if let Some(f) = &flowspec {
            if f.threshold > 0.0 && rng.chance(1, 4) {
                let thr2 = *rng.pick(&[1.0f64, 2.0, 4.0, 10.0, 50.0]);
                let iv2 = *rng.pick(&[0u32, 1000, 500, 2000]);
                if thr2 != f.threshold || iv2 != f.interval_ms {
                    flow2 = Some(FlowSpec { ctrl: 1, max_queue_ms: *rng.pick(&[0u32, 50, 500, 2000]), ..FlowSpec::reject("thr2", &res, thr2, iv2) });
                    direct = false;
                }
            }
        }
        let nops = rng.range(20, 80);
        let maxbatch = *rng.pick(&[1u64, 1, 1, 2, 3]);
        let nvals = if is_flow { 1 } else { rng.range(1, 3) };
        let unit = if is_flow { 1 } else { MS };
        let maxq_ns = maxq_ms * MS;
        let mut ops = vec![];
        let w_adv = rng.range(3, 9);
        for _ in 0..nops {
            if rng.weighted(&[8, w_adv]) == 0 {
                ops.push(Op::Req { n: rng.range(1, maxbatch) as u32, v: rng.below(nvals) as u8, sleep: rng.chance(1, 2) });
            } else {
                let ns = match rng.below(16) {
                    0 => 0,
                    1 => unit,
                    2 => spacing_ns,
                    3 => spacing_ns.saturating_sub(unit),
                    4 => spacing_ns + unit,
                    5 => spacing_ns.saturating_sub(MS),
                    6 => spacing_ns + MS,
                    7 => spacing_ns / 2,
                    8 => 2 * spacing_ns,
                    9 => maxq_ns,
                    10 => maxq_ns + unit,
                    11 => maxq_ns.saturating_sub(unit),
                    12 => spacing_ns.saturating_sub(maxq_ns),
                    13 => rng.range(0, 3 * spacing_ns.min(20 * SEC)),
                    14 => rng.range(0, 10) * MS,
                    _ => rng.range(1, 60) * SEC,
                };
                let ns = ns.min(120 * SEC);
                ops.push(Op::Adv { ns: ns - ns % unit });
            }
        }
        serde_json::to_value(Scn { epoch_ns, res, flow: flowspec, flow2, hot, direct, ops }).unwrap()
    }

    fn execute(&self, scenario: &Value, cov: &mut Cov) -> RunResult {
        let sc: Scn = serde_json::from_value(scenario.clone()).expect("C07 scenario");
        let mut w = World::start(sc.epoch_ns);
        let mut tr = Trace::default();
        let viol = run(&sc, &mut w, &mut tr, cov);
        w.drain();
        cov.sim_ns += w.sim_ns;
        cov.ops += w.ops;
        RunResult::new(tr.hash(), viol)
    }

    fn shrink(&self, scenario: &Value) -> Vec<Value> {
        let mut out = shrink_ops(scenario);
        let sc: Scn = serde_json::from_value(scenario.clone()).unwrap();
        for (i, op) in sc.ops.iter().enumerate() {
            if let Op::Req { n, v, sleep } = op {
                if *n > 1 {
                    let mut c = sc.clone();
                    c.ops[i] = Op::Req { n: 1, v: *v, sleep: *sleep };
                    out.push(serde_json::to_value(c).unwrap());
                }
                if *v > 0 {
                    let mut c = sc.clone();
                    c.ops[i] = Op::Req { n: *n, v: 0, sleep: *sleep };
                    out.push(serde_json::to_value(c).unwrap());
                }
            }
        }
        out
    }
}

enum Obs {
    Pass,
    Wait(u64),
    Blocked(String),
}

/// two throttling rules on one resource, observed through build(): reference schedule per rule,
/// rules consulted in the live controller order, waits add up
fn run_multi(sc: &Scn, w: &mut World, tr: &mut Trace, cov: &mut Cov) -> Option<Violation> {
    let specs: Vec<FlowSpec> = vec![sc.flow.clone().unwrap(), sc.flow2.clone().unwrap()];
    flow::load_rules(specs.iter().map(|f| f.rule()).collect());
    let live = flow::get_traffic_controller_list_for(&sc.res);
    if live.len() != specs.len() {
        return Some(Violation::new("C07/load/no-controller", 0, format!("{} rules, {} controllers", specs.len(), live.len())));
    }
    let order: Vec<usize> = live.iter().map(|tc| specs.iter().position(|s| s.id == tc.rule().id).expect("controller of unknown rule")).collect();
    if order[0] == 1 {
        cov.hit("second_rule_consulted_first");
    }
    let tick: i128 = 2;
    let mut s_prev: Vec<Option<i128>> = vec![None; specs.len()];
    let (mut n_wait, mut n_block, mut n_both_wait) = (0u64, 0u64, 0u64);
    for (i, op) in sc.ops.iter().enumerate() {
        match op {
            Op::Adv { ns } => {
                w.advance(*ns);
                tr.word(*ns);
            }
            Op::Req { n, .. } => {
                let a = w.now_ns() as i128;
                let o = w.enter(&sc.res, *n, false, None, None);
                if o.admitted {
                    w.exit_nth(w.open.len() - 1, false);
                }
                let t1 = o.t1_ns as i128;
                tr.word(o.admitted as u64);
                tr.word((t1 - a) as u64);
                // which rule rejected (if any)
                let blocker: Option<usize> = if o.admitted {
                    None
                } else {
                    let b = o.block.as_ref().unwrap();
                    match b.rule_id.as_ref().and_then(|id| specs.iter().position(|s| &s.id == id)) {
                        Some(x) => Some(x),
                        // "batch > threshold" rejections carry no rule: the first rule in order for which it holds
                        None => order.iter().cloned().find(|ri| *n as f64 > specs[*ri].threshold),
                    }
                };
                if !o.admitted && blocker.is_none() {
                    return Some(Violation::new("C07/flow/rejected-by-no-rule", i, o.block.map(|b| b.text).unwrap_or_default()));
                }
                let mut t = a;
                let mut waits = 0;
                for ri in order.iter() {
                    let f = &specs[*ri];
                    let interval_ns = if f.interval_ms == 0 { 1000.0 } else { f.interval_ms as f64 } * 1e6;
                    let maxq = f.max_queue_ms as i128 * 1_000_000;
                    let always_rejected = f.threshold <= 0.0 || *n as f64 > f.threshold;
                    let spacing = if f.threshold > 0.0 { (*n as f64 * interval_ns / f.threshold) as i128 } else { 0 };
                    let need = s_prev[*ri].map(|s| s + spacing - t).unwrap_or(i128::MIN / 4);
                    if Some(*ri) == blocker {
                        if !always_rejected && need < maxq - tick {
                            return Some(Violation::new(
                                "C07/flow/rejected-though-wait-within-max-queueing-time/two-rules",
                                i,
                                format!("rule {} consulted at {}: needed wait {} ns <= max queueing {} ns but it rejected the request", f.id, t, need.max(0), maxq),
                            ));
                        }
                        break;
                    }
                    // this rule admitted the request
                    if always_rejected {
                        return Some(Violation::new("C07/flow/admitted-though-always-rejected", i, format!("rule {} rate {} batch {}", f.id, f.threshold, n)));
                    }
                    if need > maxq + tick {
                        return Some(Violation::new(
                            "C07/flow/queued-beyond-max-queueing-time/two-rules",
                            i,
                            format!("rule {} consulted at {}: needed wait {} ns > max queueing {} ns but the request was not rejected by it", f.id, t, need, maxq),
                        ));
                    }
                    let wt = need.max(0);
                    if wt > 0 {
                        waits += 1;
                    }
                    s_prev[*ri] = Some(t + wt);
                    t += wt;
                }
                if o.admitted {
                    // really delayed: the clock must have reached the scheduled time of every rule
                    if t1 < t - tick * 2 {
                        return Some(Violation::new(
                            "C07/flow/released-before-scheduled-time/two-rules",
                            i,
                            format!("arrival {}: the rules' schedules (consulted in order {:?}) require the caller to be held until {} (+{} ns) but build() returned at {} (+{} ns)", a, order, t, t - a, t1, t1 - a),
                        ));
                    }
                    if waits > 0 {
                        n_wait += 1;
                    }
                    if waits > 1 {
                        n_both_wait += 1;
                    }
                } else {
                    n_block += 1;
                }
            }
        }
        tr.word(w.now_ns());
    }
    cov.add("two_rule_requests_queued", n_wait);
    cov.add("two_rule_requests_waiting_for_both_rules", n_both_wait);
    cov.add("rejected", n_block);
    cov.nontrivial = n_wait > 0 && n_block > 0;
    None
}

fn run(sc: &Scn, w: &mut World, tr: &mut Trace, cov: &mut Cov) -> Option<Violation> {
    if sc.flow.is_some() && sc.flow2.is_some() {
        return run_multi(sc, w, tr, cov);
    }
    let is_flow = sc.flow.is_some();
    let fam = if is_flow { "flow" } else { "hotspot" };
    let mut flow_tc = None;
    let mut hot_tc = None;
    let mut node: Option<Arc<dyn StatNode>> = None;
    if let Some(f) = &sc.flow {
        flow::load_rules(vec![f.rule()]);
        flow_tc = flow::get_traffic_controller_list_for(&sc.res).into_iter().next();
        if flow_tc.is_none() {
            return Some(Violation::new("C07/load/no-controller", 0, format!("valid rule {:?} has no controller", f)));
        }
        let n: Arc<dyn StatNode> = stat::get_or_create_resource_node(&sc.res, &sentinel_core::base::ResourceType::Common);
        node = Some(n);
    }
    if let Some(h) = &sc.hot {
        hotspot::load_rules(vec![h.rule()]);
        hot_tc = hotspot::get_traffic_controller_list_for(&sc.res).into_iter().next();
        if hot_tc.is_none() {
            return Some(Violation::new("C07/load/no-controller", 0, format!("valid rule {:?} has no controller", h)));
        }
    }
    // tick: 2 ns for flow (f64 arithmetic), 1 ms for hotspot (rounded ms arithmetic)
    let tick: i128 = if is_flow { 2 } else { MS as i128 };
    let maxq_ns: i128 = if let Some(f) = &sc.flow { f.max_queue_ms as i128 } else { sc.hot.as_ref().unwrap().max_queue_ms as i128 } * MS as i128;
    // one scenario in three: the empty string is one of the parameter values
    let values = if (sc.epoch_ns / 1_000_000) % 3 == 0 { ["p0", "", "p2"] } else { ["p0", "p1", "p2"] };
    let mut s_prev: HashMap<u8, i128> = HashMap::new();
    let (mut n_wait, mut n_block, mut n_pass) = (0u64, 0u64, 0u64);
    for (i, op) in sc.ops.iter().enumerate() {
        match op {
            Op::Adv { ns } => {
                w.advance(*ns);
                tr.word(*ns);
            }
            Op::Req { n, v, sleep } => {
                let v = if is_flow { 0 } else { *v };
                let a = w.now_ns() as i128;
                // rate and spacing (exact rational in ns, as f64 only for reporting)
                let (rate, interval_ns): (f64, f64) = if let Some(f) = &sc.flow {
                    (f.threshold, if f.interval_ms == 0 { 1000.0 } else { f.interval_ms as f64 } * 1e6)
                } else {
                    let h = sc.hot.as_ref().unwrap();
                    (h.threshold_for(values[v as usize]) as f64, h.duration_s as f64 * 1e9)
                };
                let always_rejected = rate <= 0.0 || (is_flow && *n as f64 > rate);
                let spacing: i128 = if rate > 0.0 { (*n as f64 * interval_ns / rate) as i128 } else { 0 };
                let need: i128 = match s_prev.get(&v) {
                    Some(s) => *s + spacing - a,
                    None => i128::MIN / 4,
                };
                // observe
                let obs = if sc.direct {
                    w.ops += 1;
                    let r = if is_flow {
                        flow_tc.as_ref().unwrap().perform_checking(node.clone().unwrap(), *n, 0)
                    } else {
                        hot_tc.as_ref().unwrap().perform_checking(values[v as usize].to_string(), *n)
                    };
                    match r {
                        TokenResult::Pass => Obs::Pass,
                        TokenResult::Wait(x) => Obs::Wait(x),
                        TokenResult::Blocked(e) => Obs::Blocked(format!("{:?}", e)),
                    }
                } else {
                    let o = w.enter(&sc.res, *n, false, Some(vec![values[v as usize].to_string()]), None);
                    if o.admitted {
                        w.exit_nth(w.open.len() - 1, false);
                        if o.t1_ns > o.t0_ns {
                            Obs::Wait(o.t1_ns - o.t0_ns)
                        } else {
                            Obs::Pass
                        }
                    } else {
                        Obs::Blocked(o.block.map(|b| b.text).unwrap_or_default())
                    }
                };
                let (admitted, wait): (bool, i128) = match &obs {
                    Obs::Pass => (true, 0),
                    Obs::Wait(x) => (true, *x as i128),
                    Obs::Blocked(_) => (false, 0),
                };
                tr.word(admitted as u64);
                tr.word(wait as u64);
                if always_rejected {
                    cov.hit("threshold_zero_or_batch_over_threshold");
                    if admitted {
                        return Some(Violation::new(format!("C07/{}/admitted-though-always-rejected", fam), i, format!("rate {} batch {}", rate, n)));
                    }
                    n_block += 1;
                    continue;
                }
                if need > maxq_ns + tick && admitted {
                    return Some(Violation::new(
                        format!("C07/{}/queued-beyond-max-queueing-time", fam),
                        i,
                        format!("a={} needed wait {} ns > max queueing {} ns but admitted (wait announced {})", a, need, maxq_ns, wait),
                    ));
                }
                // a request that arrives at or after its slot needs no queueing at all: it must be admitted
                // whatever the maximum queueing time is (for hotspot the slot is taken with the spacing rounded
                // up to the rule's millisecond arithmetic, so rounding cannot excuse a rejection)
                let need_hi: i128 = match s_prev.get(&v) {
                    Some(s) if !is_flow => *s + ((spacing + MS as i128 - 1) / MS as i128) * MS as i128 - a,
                    Some(s) => *s + spacing - a,
                    None => i128::MIN / 4,
                };
                if need_hi <= 0 && !admitted {
                    return Some(Violation::new(
                        format!("C07/{}/rejected-though-slot-is-free", fam),
                        i,
                        format!("a={} previous slot {:?} + spacing {} ns has passed, no wait is needed, but the request was rejected: {}", a, s_prev.get(&v), spacing, if let Obs::Blocked(t) = &obs { t.as_str() } else { "" }),
                    ));
                }
                if need < maxq_ns - tick && !admitted {
                    return Some(Violation::new(
                        format!("C07/{}/rejected-though-wait-within-max-queueing-time", fam),
                        i,
                        format!("a={} needed wait {} ns <= max queueing {} ns but rejected: {}", a, need.max(0), maxq_ns, if let Obs::Blocked(t) = &obs { t.as_str() } else { "" }),
                    ));
                }
                if (need - maxq_ns).abs() <= tick {
                    cov.hit("arrival_on_queueing_limit");
                }
                if admitted {
                    let s = a + wait;
                    if let Some(sp) = s_prev.get(&v) {
                        if s < *sp + spacing - tick {
                            let mode = if sc.direct { "announced" } else { "slept" };
                            return Some(Violation::new(
                                format!("C07/{}/scheduled-closer-than-spacing/{}", fam, mode),
                                i,
                                format!(
                                    "value {} batch {}: previous scheduled at {}, this one {} at {} = arrival {} + wait {} ns; required spacing {} ns ({} per {} ns)",
                                    v, n, sp, mode, s, a, wait, spacing, rate, interval_ns
                                ),
                            ));
                        }
                        if (need).abs() <= tick {
                            cov.hit("arrival_exactly_on_scheduled_slot");
                        }
                    }
                    if wait > maxq_ns + tick {
                        return Some(Violation::new(format!("C07/{}/wait-exceeds-max-queueing-time", fam), i, format!("wait {} ns, max {} ns", wait, maxq_ns)));
                    }
                    s_prev.insert(v, s);
                    if wait > 0 {
                        n_wait += 1;
                        if sc.direct && *sleep {
                            // the simulated caller honours the announced wait
                            w.advance(wait as u64);
                        } else if sc.direct {
                            cov.hit("caller_queued_behind_waiting_caller");
                        }
                    } else {
                        n_pass += 1;
                    }
                } else {
                    n_block += 1;
                }
                cov.state((need.clamp(-1, 1_000_000_000) / 1_000_000) as u64 * 4 + admitted as u64 * 2 + (wait > 0) as u64);
            }
        }
        tr.word(w.now_ns());
    }
    cov.add("passed_without_wait", n_pass);
    cov.add("queued_with_wait", n_wait);
    cov.add("rejected", n_block);
    cov.nontrivial = n_wait > 0 && n_block > 0;
    None
}
