//! C02 — sliding-window statistics report exactly the events inside the window.

use crate::engine::{shrink_ops, Budget, Cov, Prop, RunResult, Violation};
use crate::refwin::{RefWin, K};
use crate::rng::{Rng, Trace};
use crate::timegen;
use crate::world::{World, MS, SEC};
use sentinel_core::base::{MetricEvent, ReadStat, StatNode, WriteStat};
use sentinel_core::config::ConfigEntity;
use sentinel_core::stat;
use serde::{Deserialize, Serialize};
use serde_json::{json, Value};
use std::sync::Arc;

#[derive(Serialize, Deserialize, Clone, Debug)]
#[serde(tag = "t")]
pub enum Op {
    /// kind: 0 pass 1 block 2 complete 3 error 4 rt
    Add { kind: u8, n: u64 },
    Adv { ms: u64 },
    Read,
}

#[derive(Serialize, Deserialize, Clone, Debug)]
pub struct Scn {
    pub epoch_ns: u64,
    pub res: String,
    /// underlying ring: (bucket count, interval)
    pub total: (u32, u32),
    /// default read window
    pub def: (u32, u32),
    /// additional read windows requested through generate_read_stat
    pub readers: Vec<(u32, u32)>,
    pub ops: Vec<Op>,
}

/// independently written predicate: can a read window (sc, iv) be served by a ring (psc, piv)?
pub fn servable(sc: u32, iv: u32, psc: u32, piv: u32) -> bool {
    if sc == 0 || iv == 0 || iv % sc != 0 {
        return false;
    }
    if psc == 0 || piv == 0 || piv % psc != 0 {
        return false;
    }
    let bl = iv / sc;
    let pbl = piv / psc;
    piv % iv == 0 && bl % pbl == 0
}

fn ev(kind: u8) -> (MetricEvent, K) {
    match kind {
        0 => (MetricEvent::Pass, K::Pass),
        1 => (MetricEvent::Block, K::Block),
        2 => (MetricEvent::Complete, K::Complete),
        3 => (MetricEvent::Error, K::Error),
        _ => (MetricEvent::Rt, K::Rt),
    }
}

pub struct C02;

impl Prop for C02 {
    fn id(&self) -> &'static str {
        "C02"
    }
    fn gap_ns(&self) -> u64 {
        7_200 * SEC
    }
    fn budget(&self, thorough: bool) -> Budget {
        if thorough {
            Budget { runs: 500_000, wall_s: 300 }
        } else {
            Budget { runs: 8_000, wall_s: 30 }
        }
    }
    fn rule_text(&self) -> &'static str {
        "seeded scenarios: underlying ring with 1..20 buckets x 1..1000 ms, default read window and 0-4 additional read windows drawn from servable and unservable (count, interval) pairs, installed through ConfigEntity + a fresh resource node / generate_read_stat; 15-70 ops over add(pass|block|complete|error|rt, n), boundary-biased advance, read-all. Every read compares sum/qps/qps_previous/avg_rt/min_rt of every reader with the recorded event list. Non-trivial = accepted configuration with >=1 read that saw >=1 event inside and >=1 event already outside a window; distinct = distinct trace hash."
    }
    fn components(&self) -> Value {
        json!({"real": ["sentinel-core: ConfigEntity::check, config::reset_global_config, ResourceNode, BucketLeapArray/LeapArray, SlidingWindowMetric, MetricBucket"],
               "stub": ["clock (virtual, hook H1)", "getrandom (seeded)", "logger (a sink that formats every record of the library and discards it)"]})
    }

    fn generate(&self, rng: &mut Rng, slot_ns: u64, _avoid: bool) -> Value {
        let epoch_ns = slot_ns + timegen::phase_ns(rng, 20_000);
        let psc = rng.range(1, 20) as u32;
        let pbl = match rng.below(4) {
            0 => rng.range(1, 10),
            1 => *rng.pick(&[50u64, 100, 200, 250, 500, 1000]),
            _ => rng.range(1, 1000),
        } as u32;
        let mut total = (psc, psc * pbl);
        // sometimes an invalid ring
        if rng.chance(1, 25) {
            total = match rng.below(3) {
                0 => (0, total.1),
                1 => (psc, psc * pbl + 1),
                _ => (psc, 0),
            };
        }
        let mut pick_reader = |rng: &mut Rng, want_ok: bool| -> (u32, u32) {
            let (psc, piv) = total;
            if psc == 0 || piv == 0 || piv % psc != 0 {
                return (rng.range(0, 3) as u32, rng.range(0, 2000) as u32);
            }
            let pbl = piv / psc;
            if want_ok {
                // interval = d * pbl with d | psc ; bucket = multiple of pbl dividing interval
                let divs: Vec<u32> = (1..=psc).filter(|d| psc % d == 0).collect();
                let d = *rng.pick(&divs);
                let iv = d * pbl;
                let bdivs: Vec<u32> = (1..=d).filter(|b| d % b == 0).collect();
                let b = *rng.pick(&bdivs); // reader bucket = b * pbl
                (d / b, iv)
            } else {
                // interval divides the ring's interval, bucket longer than the ring's bucket but not a multiple of it
                let mut near: Vec<(u32, u32)> = vec![];
                for iv in (1..=piv).filter(|iv| piv % iv == 0) {
                    for sc in 1..=iv.min(20) {
                        if iv % sc == 0 && (iv / sc) > pbl && (iv / sc) % pbl != 0 {
                            near.push((sc, iv));
                        }
                    }
                    if near.len() > 64 {
                        break;
                    }
                }
                if !near.is_empty() && rng.chance(1, 3) {
                    return *rng.pick(&near);
                }
                match rng.below(5) {
                    0 => (0, piv),
                    1 => (1, 0),
                    2 => (rng.range(1, 6) as u32, rng.range(1, 3000) as u32),
                    3 => (1, piv * 2),
                    _ => {
                        // bucket shorter than the ring's bucket
                        let iv = pbl * rng.range(1, psc as u64) as u32;
                        (iv.max(1), iv)
                    }
                }
            }
        };
        let ok = !rng.chance(1, 10);
        let def = pick_reader(rng, ok);
        let nr = rng.range(0, 4);
        let readers: Vec<(u32, u32)> = (0..nr)
            .map(|_| {
                let ok = !rng.chance(1, 4);
                pick_reader(rng, ok)
            })
            .collect();
        let nops = rng.range(15, 70);
        let (l, i) = if total.0 > 0 && total.1 > 0 { ((total.1 / total.0).max(1) as u64, total.1 as u64) } else { (500, 10_000) };
        let mut now_ms = epoch_ns / MS;
        let mut ops = vec![];
        for _ in 0..nops {
            match rng.weighted(&[10, 6, 5]) {
                0 => {
                    let kind = rng.below(5) as u8;
                    let n = if kind == 4 { *rng.pick(&[0u64, 1, 5, 50, 300, 59_999, 60_000, 70_000]) } else { rng.range(0, 9) };
                    ops.push(Op::Add { kind, n });
                }
                1 => {
                    let (ri, rl) = if !readers.is_empty() && rng.chance(1, 2) {
                        let r = rng.pick(&readers);
                        if r.0 > 0 && r.1 > 0 { (r.1 as u64, (r.1 / r.0).max(1) as u64) } else { (i, l) }
                    } else if rng.chance(1, 2) && def.0 > 0 && def.1 > 0 {
                        (def.1 as u64, (def.1 / def.0).max(1) as u64)
                    } else {
                        (i, l)
                    };
                    let ll = if rng.chance(1, 2) { l } else { rl };
                    let mut ms = timegen::dt_ms(rng, now_ms, ll, ri);
                    let left = (epoch_ns / MS + 6_000_000).saturating_sub(now_ms);
                    if ms > left {
                        ms = left;
                    }
                    now_ms += ms;
                    ops.push(Op::Adv { ms });
                }
                _ => ops.push(Op::Read),
            }
        }
        ops.push(Op::Read);
        serde_json::to_value(Scn { epoch_ns, res: format!("c02_{:x}", rng.below(0xffffff)), total, def, readers, ops }).unwrap()
    }

    fn execute(&self, scenario: &Value, cov: &mut Cov) -> RunResult {
        let sc: Scn = serde_json::from_value(scenario.clone()).expect("C02 scenario");
        let mut w = World::start(sc.epoch_ns);
        let mut tr = Trace::default();
        let viol = run(&sc, &mut w, &mut tr, cov);
        cov.sim_ns += w.sim_ns;
        cov.ops += w.ops;
        RunResult::new(tr.hash(), viol)
    }

    fn shrink(&self, scenario: &Value) -> Vec<Value> {
        let mut out = shrink_ops(scenario);
        let sc: Scn = serde_json::from_value(scenario.clone()).unwrap();
        for i in 0..sc.readers.len() {
            let mut c = sc.clone();
            c.readers.remove(i);
            out.push(serde_json::to_value(c).unwrap());
        }
        for (i, op) in sc.ops.iter().enumerate() {
            if let Op::Add { kind, n } = op {
                if *n > 1 {
                    let mut c = sc.clone();
                    c.ops[i] = Op::Add { kind: *kind, n: 1 };
                    out.push(serde_json::to_value(c).unwrap());
                }
            }
        }
        out
    }
}

fn run(sc: &Scn, w: &mut World, tr: &mut Trace, cov: &mut Cov) -> Option<Violation> {
    let mut cfg = ConfigEntity::new();
    cfg.config.stat.sample_count_total = sc.total.0;
    cfg.config.stat.interval_ms_total = sc.total.1;
    cfg.config.stat.sample_count = sc.def.0;
    cfg.config.stat.interval_ms = sc.def.1;
    let want_ok = servable(sc.def.0, sc.def.1, sc.total.0, sc.total.1);
    let got = cfg.check();
    tr.word(got.is_ok() as u64);
    if got.is_ok() != want_ok {
        return Some(Violation::new(
            if want_ok { "C02/construct/refused-servable-config" } else { "C02/construct/accepted-unservable-config" },
            0,
            format!("ring {:?} default window {:?}: check() = {:?}", sc.total, sc.def, got.err().map(|e| e.to_string())),
        ));
    }
    if !want_ok {
        cov.hit("config_refused");
        return None;
    }
    sentinel_core::config::reset_global_config(cfg);
    let node = stat::get_or_create_resource_node(&sc.res, &sentinel_core::base::ResourceType::Common);
    let (psc, piv) = sc.total;
    let lt = (piv / psc) as u64;
    // (reader, interval, reader bucket len)
    let mut readers: Vec<(Arc<dyn ReadStat>, u64, u64, String)> = vec![];
    readers.push((node.default_metric(), sc.def.1 as u64, (sc.def.1 / sc.def.0) as u64, format!("default{:?}", sc.def)));
    for (rsc, riv) in &sc.readers {
        let want = servable(*rsc, *riv, psc, piv);
        let got = node.generate_read_stat(*rsc, *riv);
        tr.word(got.is_ok() as u64);
        if got.is_ok() != want {
            return Some(Violation::new(
                if want { "C02/construct/refused-servable-reader" } else { "C02/construct/accepted-unservable-reader" },
                0,
                format!("ring {:?} reader ({},{}) -> ok={}", sc.total, rsc, riv, got.is_ok()),
            ));
        }
        match got {
            Ok(r) => {
                cov.hit("reader_accepted");
                readers.push((r, *riv as u64, (*riv / *rsc) as u64, format!("reader({},{})", rsc, riv)));
            }
            Err(_) => cov.hit("reader_refused"),
        }
    }
    let mut log = RefWin::default();
    let mut saw_inside = false;
    let mut saw_outside = false;
    for (i, op) in sc.ops.iter().enumerate() {
        match op {
            Op::Add { kind, n } => {
                let (me, k) = ev(*kind);
                node.add_count(me, *n);
                log.add(w.now_ms(), k, *n);
                w.ops += 1;
                if w.now_ms() % lt == 0 {
                    cov.hit("write_on_bucket_boundary");
                }
            }
            Op::Adv { ms } => {
                w.advance(ms * MS);
                if *ms > piv as u64 {
                    cov.hit("gap_ring_fully_expired");
                }
            }
            Op::Read => {
                w.ops += 1;
                let t = w.now_ms();
                if t % lt == 0 {
                    cov.hit("read_on_bucket_boundary");
                }
                let mut st = 0u64;
                for (r, iv, rbl, name) in &readers {
                    if t % iv == 0 {
                        cov.hit("read_on_interval_boundary");
                    }
                    let mut tot_in = 0;
                    for kind in 0..5u8 {
                        let (me, k) = ev(kind);
                        let want = log.sum(t, *iv, lt, k);
                        let got = r.sum(me);
                        st = st.wrapping_mul(1_000_003).wrapping_add(got);
                        tr.word(got);
                        if got != want {
                            return Some(Violation::new(
                                if got > want { "C02/read/sum-reports-events-outside-window" } else { "C02/read/sum-misses-events-inside-window" },
                                i,
                                format!("t={} ring={:?} {} event={:?}: sum={} reference={}", t, sc.total, name, me, got, want),
                            ));
                        }
                        tot_in += want;
                        let q = r.qps(me);
                        let wq = want as f64 / (*iv as f64 / 1000.0);
                        if (q - wq).abs() > 1e-9 * wq.abs().max(1.0) {
                            return Some(Violation::new("C02/read/qps", i, format!("t={} {} event={:?}: qps={} reference={}", t, name, me, q, wq)));
                        }
                        let wp = log.sum(t - rbl, *iv, lt, k) as f64 / (*iv as f64 / 1000.0);
                        let qp = r.qps_previous(me);
                        // qps_previous is a read of the window ending at t - bucket. The statement
                        // quantifies over reads at times later than the last write: it is exact when
                        // nothing was written after that window's end; with later writes (which may
                        // already have recycled the window's oldest ring slot) it must still never
                        // report more than the window holds.
                        let last_write = log.ev.last().map(|e| e.0).unwrap_or(0);
                        if last_write <= t - rbl {
                            if (qp - wp).abs() > 1e-9 * wp.abs().max(1.0) {
                                return Some(Violation::new("C02/read/qps-previous", i, format!("t={} {} event={:?}: qps_previous={} reference={}", t, name, me, qp, wp)));
                            }
                            cov.hit("qps_previous_exact_checked");
                        } else if qp > wp + 1e-9 * wp.abs().max(1.0) {
                            return Some(Violation::new("C02/read/qps-previous-exceeds", i, format!("t={} {} event={:?}: qps_previous={} reference={}", t, name, me, qp, wp)));
                        }
                    }
                    let comp = log.sum(t, *iv, lt, K::Complete);
                    let want_avg = if comp == 0 { 0.0 } else { log.sum(t, *iv, lt, K::Rt) as f64 / comp as f64 };
                    let got_avg = r.avg_rt();
                    if (got_avg - want_avg).abs() > 1e-9 * want_avg.abs().max(1.0) {
                        return Some(Violation::new("C02/read/avg-rt", i, format!("t={} {}: avg_rt={} reference={}", t, name, got_avg, want_avg)));
                    }
                    let want_min = log.min_rt(t, *iv, lt, 60_000) as f64;
                    let got_min = r.min_rt();
                    if got_min != want_min {
                        return Some(Violation::new("C02/read/min-rt", i, format!("t={} {}: min_rt={} reference={}", t, name, got_min, want_min)));
                    }
                    if tot_in > 0 {
                        saw_inside = true;
                    }
                    let all: u64 = log.ev.iter().map(|e| e.2).sum();
                    if all > tot_in {
                        saw_outside = true;
                        cov.hit("read_with_expired_events");
                    }
                }
                cov.state(st);
            }
        }
        tr.word(w.now_ms());
    }
    cov.nontrivial = saw_inside && saw_outside;
    None
}
