//! C10 — rule managers hold and enforce exactly the valid rules last given, incl. appends.

use crate::engine::{shrink_ops, Budget, Cov, Prop, RunResult, Violation};
use crate::fam::{self, AnySpec, Seen, FAMILIES};
use crate::rng::{Rng, Trace};
use crate::seams;
use crate::world::{BreakerSpec, FlowSpec, HotspotSpec, IsoSpec, SysSpec, World, SEC};
use serde::{Deserialize, Serialize};
use serde_json::{json, Value};
use std::collections::BTreeMap;

#[derive(Serialize, Deserialize, Clone, Debug)]
#[serde(tag = "t")]
pub enum Op {
    /// replace everything with pool[idx..]
    LoadAll { idx: Vec<usize> },
    /// replace one resource's rules (pool entries must belong to that resource)
    LoadRes { res: usize, idx: Vec<usize> },
    Append { idx: usize },
    Clear,
    ClearRes { res: usize },
}

#[derive(Serialize, Deserialize, Clone, Debug)]
pub struct Scn {
    pub epoch_ns: u64,
    pub fam: usize,
    pub res: Vec<String>,
    pub pool: Vec<AnySpec>,
    pub ops: Vec<Op>,
}

pub struct C10;

fn gen_spec(rng: &mut Rng, fam: usize, res: &str, id: String, invalid: bool) -> AnySpec {
    match fam {
        0 => {
            let mut s = FlowSpec::reject(&id, res, rng.range(1, 6) as f64, *rng.pick(&[0u32, 1000, 2000, 0, 1000, 2000, 700, 1300, 1600, 1700, 3100, 3400]));
            if rng.chance(1, 5) {
                // warm-up rules: period and cold factor take part in enforcement (0 means the default factor 3)
                s.calc = 1;
                s.threshold = *rng.pick(&[30.0f64, 60.0]);
                s.warm_period = *rng.pick(&[1u32, 5]);
                s.warm_cold = *rng.pick(&[0u32, 2, 3, 4]);
            } else if rng.chance(1, 4) {
                // throttling rules: their statistic interval is the pacing interval
                s.ctrl = 1;
                s.max_queue_ms = *rng.pick(&[0u32, 100]);
                s.interval_ms = *rng.pick(&[0u32, 1000, 10_000]);
            }
            if invalid {
                match rng.below(3) {
                    0 => s.threshold = -1.0,
                    1 => {
                        s.calc = 1;
                        s.warm_period = 0;
                    }
                    _ => {
                        s.relation = 1;
                        s.ref_res = String::new();
                    }
                }
            }
            AnySpec::Flow(s)
        }
        1 => {
            let mut s = BreakerSpec {
                id,
                res: res.to_string(),
                strategy: rng.below(3) as u8,
                retry_ms: *rng.pick(&[1000u32, 2000]),
                min_req: rng.range(1, 3),
                interval_ms: *rng.pick(&[1000u32, 2000]),
                buckets: *rng.pick(&[1u32, 2]),
                max_rt: *rng.pick(&[10u64, 10, 50]),
                threshold: *rng.pick(&[0.5f64, 1.0]),
            };
            if invalid {
                match rng.below(3) {
                    0 => s.interval_ms = 0,
                    1 => s.retry_ms = 0,
                    _ => s.threshold = -0.5,
                }
            }
            AnySpec::Breaker(s)
        }
        2 => {
            let metric = rng.below(2) as u8;
            let mut s = HotspotSpec {
                id,
                res: res.to_string(),
                metric,
                ctrl: rng.below(2) as u8,
                index: *rng.pick(&[0i64, 1, -1]),
                key: String::new(),
                threshold: rng.range(1, 5),
                max_queue_ms: 0,
                burst: 0,
                duration_s: if metric == 1 { rng.range(1, 2) } else { 0 },
                capacity: *rng.pick(&[0usize, 0, 100, 4, 2]),
                specific: if rng.chance(1, 3) { vec![("a".to_string(), rng.range(1, 5))] } else { vec![] },
            };
            if rng.chance(1, 8) {
                // a registered custom control strategy
                s.ctrl = CUSTOM_HOT;
            }
            s.burst = if s.ctrl != 1 { *rng.pick(&[0u64, 0, 2]) } else { 0 };
            s.max_queue_ms = if s.ctrl != 0 { *rng.pick(&[0u64, 0, 100]) } else { 0 };
            if invalid {
                if rng.chance(1, 2) {
                    s.metric = 1;
                    s.duration_s = 0;
                } else {
                    s.index = 1;
                    s.key = "k".into();
                }
            }
            AnySpec::Hot(s)
        }
        3 => {
            let mut s = IsoSpec { id, res: res.to_string(), threshold: rng.range(1, 6) as u32 };
            if invalid {
                s.threshold = 0;
            }
            AnySpec::Iso(s)
        }
        _ => {
            let metric = rng.below(5) as u8;
            let mut s = SysSpec {
                id,
                metric,
                threshold: match metric {
                    0 => *rng.pick(&[0.5f64, 0.8, 0.3]),
                    4 => *rng.pick(&[50.0f64, 80.0]),
                    _ => *rng.pick(&[1000.0f64, 2000.0]),
                },
                bbr: rng.below(2) as u8,
            };
            if invalid {
                match rng.below(3) {
                    0 => s.threshold = -1.0,
                    1 => {
                        s.metric = 0;
                        s.threshold = 1.5;
                    }
                    _ => {
                        s.metric = 4;
                        s.threshold = 101.0;
                    }
                }
            }
            AnySpec::Sys(s)
        }
    }
}

/// control strategy number of the custom hotspot strategy registered for C10 (a plain reject controller)
pub const CUSTOM_HOT: u8 = 101;

impl Prop for C10 {
    fn id(&self) -> &'static str {
        "C10"
    }
    fn extra_warm_up(&self) {
        use sentinel_core::hotspot;
        use std::sync::{Arc, Mutex};
        // a user-registered hotspot strategy: rules that name it are as valid as the built-in ones
        let _ = hotspot::set_traffic_shaping_generator(
            hotspot::ControlStrategy::Custom(CUSTOM_HOT),
            Box::new(|rule: Arc<hotspot::Rule>, _m: Option<Arc<hotspot::ParamsMetric>>| {
                let checker: Arc<Mutex<dyn hotspot::Checker>> = Arc::new(Mutex::new(hotspot::RejectChecker::<hotspot::Counter>::new()));
                let mut tsc = hotspot::Controller::new(rule);
                tsc.set_checker(Arc::clone(&checker));
                let tsc = Arc::new(tsc);
                checker.lock().unwrap().set_owner(Arc::downgrade(&tsc));
                tsc
            }),
        );
    }
    fn gap_ns(&self) -> u64 {
        3_600 * SEC
    }
    fn budget(&self, thorough: bool) -> Budget {
        if thorough {
            Budget { runs: 500_000, wall_s: 300 }
        } else {
            Budget { runs: 10_000, wall_s: 30 }
        }
    }
    fn rule_text(&self) -> &'static str {
        "seeded scenarios per family (flow, circuit breaker, hotspot, isolation, system): a pool of valid, invalid, equal-but-differently-identified, edited-with-the-same-id and nearest-neighbour (threshold one representable value apart) rules, hotspot rules also with a registered custom control strategy, on 2-3 resources and a history of <= 12 operations over load-all / load-for-resource / append / clear / clear-for-resource; after every operation get_rules, get_rules_of_resource and the live controller/breaker lists are compared (as sets under rule equality) with a reference map, for flow, isolation and hotspot (concurrency and reject-type rules) additionally the enforced minimum threshold is measured behaviourally, for hotspot QPS rules also that a drained value stays drained while other values pass by; return values asserted for duplicate-free calls; every call under catch_unwind followed by a health probe. Non-trivial = history contains a replacement and an append after which >= 2 rules are active on one resource; distinct = distinct trace hash."
    }
    fn components(&self) -> Value {
        json!({"real": ["sentinel-core: the five rule managers, controller/breaker builders, EntryBuilder + slot chain for the behavioural probes"],
               "stub": ["clock (virtual, hook H1)", "getrandom (seeded hash order of rule sets)", "logger (a sink that formats every record of the library and discards it)"]})
    }

    fn generate(&self, rng: &mut Rng, slot_ns: u64, avoid: bool) -> Value {
        let epoch_ns = slot_ns;
        let fam = rng.below(5) as usize;
        let tag = rng.below(0xffffff);
        let nres = rng.range(2, 3) as usize;
        let res: Vec<String> = (0..nres).map(|i| format!("c10_{:x}_{}", tag, i)).collect();
        let npool = rng.range(4, 9) as usize;
        let mut pool: Vec<AnySpec> = vec![];
        for j in 0..npool {
            let r = &res[rng.below(nres as u64) as usize];
            let id = format!("p{}_{:x}", j, rng.below(0xffff));
            if !pool.is_empty() && rng.chance(1, 6) {
                // equal rule under another id
                let mut twin = rng.pick(&pool).clone();
                twin.set_id(id);
                pool.push(twin);
            } else if !pool.is_empty() && rng.chance(1, 8) {
                // a different rule that is as close as a rule can be: threshold one representable value higher
                let mut near = rng.pick(&pool).clone();
                near.set_id(id.clone());
                if near.nudge_threshold() {
                    pool.push(near);
                } else {
                    pool.push(gen_spec(rng, fam, r, id, false));
                }
            } else if fam == 2 && !pool.is_empty() && rng.chance(1, 6) {
                // the same hotspot rule with another metric type or another cache capacity (what decides whether
                // its statistics may be handed over on reload)
                let mut near = rng.pick(&pool).clone();
                near.set_id(id.clone());
                if let AnySpec::Hot(h) = &mut near {
                    if rng.chance(1, 2) {
                        h.capacity = if h.capacity == 2 { 4 } else { 2 };
                    } else {
                        h.metric = 1 - h.metric.min(1);
                        if h.metric == 1 && h.duration_s == 0 {
                            h.duration_s = 1;
                        }
                    }
                }
                pool.push(near);
            } else if !pool.is_empty() && rng.chance(1, 6) {
                // an edited rule that keeps its id: same id and resource, other content
                let old = rng.pick(&pool).clone();
                let edited = gen_spec(rng, fam, &old.res(), old.id().to_string(), false);
                if edited.fingerprint() != old.fingerprint() {
                    pool.push(edited);
                } else {
                    pool.push(gen_spec(rng, fam, r, id, false));
                }
            } else {
                let invalid = rng.chance(1, 5);
                pool.push(gen_spec(rng, fam, r, id, invalid));
            }
        }
        let of_res = |pool: &Vec<AnySpec>, r: &String| -> Vec<usize> { (0..pool.len()).filter(|i| pool[*i].res() == *r || fam == 4).collect() };
        let nops = rng.range(2, 12);
        let mut ops = vec![];
        // bookkeeping for the avoidance switch (known findings): resources that have rules / appended
        let mut has_rules: Vec<bool> = vec![false; nres];
        for _ in 0..nops {
            let choice = rng.weighted(&[4, 4, 5, 1, 2]);
            match choice {
                0 => {
                    let k = rng.range(0, npool as u64);
                    let mut idx: Vec<usize> = (0..npool).collect();
                    rng.shuffle(&mut idx);
                    idx.truncate(k as usize);
                    for r in 0..nres {
                        has_rules[r] = idx.iter().any(|i| pool[*i].res() == res[r] && pool[*i].is_valid_static());
                    }
                    ops.push(Op::LoadAll { idx });
                }
                1 if fam != 4 => {
                    let r = rng.below(nres as u64) as usize;
                    let mut idx = of_res(&pool, &res[r]);
                    rng.shuffle(&mut idx);
                    let k = rng.range(0, idx.len() as u64);
                    idx.truncate(k as usize);
                    has_rules[r] = idx.iter().any(|i| pool[*i].is_valid_static());
                    ops.push(Op::LoadRes { res: r, idx });
                }
                2 | 1 => {
                    let i = rng.below(npool as u64) as usize;
                    if avoid && fam <= 2 {
                        // known findings around append in flow/breaker/hotspot: only the first, valid
                        // append on a resource without rules is generated in avoidance runs
                        let r = res.iter().position(|x| *x == pool[i].res()).unwrap_or(0);
                        if has_rules[r] || !pool[i].is_valid_static() {
                            continue;
                        }
                        has_rules[r] = true;
                    } else if let Some(r) = res.iter().position(|x| *x == pool[i].res()) {
                        if pool[i].is_valid_static() {
                            has_rules[r] = true;
                        }
                    }
                    ops.push(Op::Append { idx: i });
                }
                3 => {
                    has_rules.iter_mut().for_each(|x| *x = false);
                    ops.push(Op::Clear);
                }
                _ if fam != 4 => {
                    let r = rng.below(nres as u64) as usize;
                    has_rules[r] = false;
                    ops.push(Op::ClearRes { res: r });
                }
                _ => ops.push(Op::Clear),
            }
        }
        serde_json::to_value(Scn { epoch_ns, fam, res, pool, ops }).unwrap()
    }

    fn execute(&self, scenario: &Value, cov: &mut Cov) -> RunResult {
        let sc: Scn = serde_json::from_value(scenario.clone()).expect("C10 scenario");
        let mut w = World::start(sc.epoch_ns);
        let mut tr = Trace::default();
        let viol = run(&sc, &mut w, &mut tr, cov);
        w.drain();
        cov.sim_ns += w.sim_ns;
        cov.ops += w.ops;
        RunResult::new(tr.hash(), viol)
    }

    fn shrink(&self, scenario: &Value) -> Vec<Value> {
        let mut out = shrink_ops(scenario);
        let sc: Scn = serde_json::from_value(scenario.clone()).unwrap();
        // fewer rules per load
        for (i, op) in sc.ops.iter().enumerate() {
            match op {
                Op::LoadAll { idx } if !idx.is_empty() => {
                    for j in 0..idx.len() {
                        let mut c = sc.clone();
                        let mut x = idx.clone();
                        x.remove(j);
                        c.ops[i] = Op::LoadAll { idx: x };
                        out.push(serde_json::to_value(c).unwrap());
                    }
                }
                Op::LoadRes { res, idx } if !idx.is_empty() => {
                    for j in 0..idx.len() {
                        let mut c = sc.clone();
                        let mut x = idx.clone();
                        x.remove(j);
                        c.ops[i] = Op::LoadRes { res: *res, idx: x };
                        out.push(serde_json::to_value(c).unwrap());
                    }
                }
                _ => {}
            }
        }
        out
    }
}

impl AnySpec {
    /// validity for generator bookkeeping only (same call as is_valid; separate name for clarity)
    pub fn is_valid_static(&self) -> bool {
        self.is_valid()
    }
}

fn guarded<T>(f: impl FnOnce() -> T) -> Result<T, (String, String)> {
    std::panic::catch_unwind(std::panic::AssertUnwindSafe(f)).map_err(|_| seams::take_last_panic().unwrap_or(("?".into(), "?".into())))
}

/// every manager must still answer queries and accept updates
pub fn health_probe() -> Option<String> {
    for f in 0..5 {
        if let Err((loc, msg)) = guarded(|| {
            let _ = fam::get_all(f);
            fam::load_all(f, &[]);
            fam::clear(f);
        }) {
            return Some(format!("{} manager unusable afterwards: panic at {}: {}", FAMILIES[f], loc, msg));
        }
    }
    if let Err((loc, msg)) = guarded(|| {
        if let Ok(e) = sentinel_core::EntryBuilder::new("c10_health".into()).build() {
            e.exit()
        }
    }) {
        return Some(format!("entry on an unrelated resource panics afterwards at {}: {}", loc, msg));
    }
    None
}

fn set_diff(pool: &[AnySpec], seen: &[Seen], want: &[usize]) -> Option<(bool, String)> {
    // reported rules must all be known pool entries
    let mut seen_idx = vec![];
    for s in seen {
        match pool.iter().position(|p| p.id() == s.id && p.fingerprint() == s.debug) {
            Some(i) => seen_idx.push(i),
            None => return Some((true, format!("unknown rule reported: {}", s.debug))),
        }
    }
    for i in &seen_idx {
        if !want.iter().any(|wi| pool[*wi].same_rule(&pool[*i])) {
            return Some((true, format!("{:?}", pool[*i])));
        }
    }
    for wi in want {
        if !seen_idx.iter().any(|i| pool[*wi].same_rule(&pool[*i])) {
            return Some((false, format!("{:?}", pool[*wi])));
        }
    }
    None
}

fn run(sc: &Scn, w: &mut World, tr: &mut Trace, cov: &mut Cov) -> Option<Violation> {
    let fam = sc.fam;
    let f = FAMILIES[fam];
    // reference: resource -> pool indices of active rules ("" for system)
    let mut refmap: BTreeMap<String, Vec<usize>> = BTreeMap::new();
    // what the last replacement of a scope was given (for return values): scope "" = all
    let mut last_given_all: Option<Vec<usize>> = Some(vec![]);
    let mut last_given_res: BTreeMap<String, Vec<usize>> = BTreeMap::new();
    let (mut did_replace, mut multi_after_append) = (false, false);
    for (i, op) in sc.ops.iter().enumerate() {
        let opname;
        let before = refmap.clone();
        let r = match op {
            Op::LoadAll { idx } => {
                opname = "load";
                let specs: Vec<AnySpec> = idx.iter().map(|j| sc.pool[*j].clone()).collect();
                let ret = guarded(|| fam::load_all(fam, &specs));
                refmap.clear();
                for j in idx {
                    if sc.pool[*j].is_valid() {
                        refmap.entry(sc.pool[*j].res()).or_default().push(*j);
                    }
                }
                did_replace = true;
                // return value for duplicate-free calls
                let has_twins = idx.iter().enumerate().any(|(a, x)| idx.iter().skip(a + 1).any(|y| sc.pool[*x].same_rule(&sc.pool[*y])));
                let mut sorted = idx.clone();
                sorted.sort();
                let identical = last_given_all.as_ref().map(|l| *l == sorted).unwrap_or(false);
                if let Ok(Some(changed)) = &ret {
                    if !has_twins {
                        if identical && *changed {
                            return Some(Violation::new(format!("C10/{}/load/identical-reload-reported-as-change", f), i, format!("rules {:?}", idx)));
                        }
                        // "changed" is judged under rule equality (ids do not matter)
                        let covers = |a: &BTreeMap<String, Vec<usize>>, b: &BTreeMap<String, Vec<usize>>| -> bool {
                            a.iter().all(|(k, va)| {
                                let vb = b.get(k).cloned().unwrap_or_default();
                                va.iter().all(|x| vb.iter().any(|y| sc.pool[*x].same_rule(&sc.pool[*y])))
                            })
                        };
                        let same_as_ref = covers(&before, &refmap) && covers(&refmap, &before);
                        if !identical && !same_as_ref && !*changed {
                            return Some(Violation::new(format!("C10/{}/load/changed-set-reported-as-unchanged", f), i, format!("rules {:?}", idx)));
                        }
                    }
                    if identical {
                        cov.hit("identical_reload");
                    }
                }
                last_given_all = Some(sorted);
                last_given_res.clear();
                ret.map(|_| ())
            }
            Op::LoadRes { res, idx } => {
                opname = "load-for-resource";
                let rname = sc.res[*res % sc.res.len()].clone();
                let specs: Vec<AnySpec> = idx.iter().map(|j| sc.pool[*j].clone()).collect();
                let ret = guarded(|| fam::load_res(fam, &rname, &specs));
                let valid: Vec<usize> = idx.iter().filter(|j| sc.pool[**j].is_valid()).cloned().collect();
                if valid.is_empty() {
                    refmap.remove(&rname);
                } else {
                    refmap.insert(rname.clone(), valid);
                }
                did_replace = true;
                if let Ok(Some(Err(e))) = &ret {
                    return Some(Violation::new(format!("C10/{}/load-for-resource/error", f), i, e.clone()));
                }
                let has_twins = idx.iter().enumerate().any(|(a, x)| idx.iter().skip(a + 1).any(|y| sc.pool[*x].same_rule(&sc.pool[*y])));
                let mut sorted = idx.clone();
                sorted.sort();
                if let Ok(Some(Ok(changed))) = &ret {
                    let identical = !idx.is_empty() && last_given_res.get(&rname).map(|l| *l == sorted).unwrap_or(false);
                    if !has_twins && identical && *changed {
                        return Some(Violation::new(format!("C10/{}/load-for-resource/identical-reload-reported-as-change", f), i, format!("rules {:?}", idx)));
                    }
                    if identical {
                        cov.hit("identical_reload_of_resource");
                    }
                }
                last_given_res.insert(rname, sorted);
                last_given_all = None;
                ret.map(|_| ())
            }
            Op::Append { idx } => {
                opname = "append";
                let spec = &sc.pool[*idx];
                let fresh = !refmap.contains_key(&spec.res());
                if !spec.is_valid() {
                    cov.hit(if fresh { "invalid_append_on_fresh_resource" } else { "invalid_append" });
                }
                let ret = guarded(|| fam::append(spec));
                if spec.is_valid() {
                    let l = refmap.entry(spec.res()).or_default();
                    if !l.contains(idx) {
                        l.push(*idx);
                    }
                    if l.len() >= 2 {
                        multi_after_append = true;
                        cov.hit("append_to_resource_with_active_rules");
                    }
                }
                last_given_all = None;
                last_given_res.remove(&spec.res());
                ret.map(|_| ())
            }
            Op::Clear => {
                opname = "clear";
                let ret = guarded(|| fam::clear(fam));
                refmap.clear();
                last_given_all = Some(vec![]);
                last_given_res.clear();
                ret
            }
            Op::ClearRes { res } => {
                opname = "clear-for-resource";
                let rname = sc.res[*res % sc.res.len()].clone();
                let ret = guarded(|| {
                    fam::clear_res(fam, &rname);
                });
                refmap.remove(&rname);
                last_given_res.remove(&rname);
                last_given_all = None;
                ret
            }
        };
        tr.str(opname);
        w.ops += 1;
        if let Err((loc, msg)) = r {
            let poisoned = health_probe();
            return Some(Violation::new(
                format!("C10/{}/{}/panic{}", f, opname, if poisoned.is_some() { "-poisons-manager" } else { "" }),
                i,
                format!("{} panicked at {}: {}{}", opname, loc, msg, poisoned.map(|p| format!("; {}", p)).unwrap_or_default()),
            ));
        }
        // ---- compare reported and enforced rules with the reference
        let want_all: Vec<usize> = refmap.values().flatten().cloned().collect();
        if let Some((extra, what)) = set_diff(&sc.pool, &fam::get_all(fam), &want_all) {
            return Some(Violation::new(
                format!("C10/{}/{}/get_rules-{}", f, opname, if extra { "reports-rule-not-active" } else { "misses-active-rule" }),
                i,
                format!("after {:?}: {} ; reference {:?}", op, what, refmap),
            ));
        }
        if fam != 4 {
            for rname in &sc.res {
                let want: Vec<usize> = refmap.get(rname).cloned().unwrap_or_default();
                if let Some(seen) = fam::get_res(fam, rname) {
                    if let Some((extra, what)) = set_diff(&sc.pool, &seen, &want) {
                        return Some(Violation::new(
                            format!("C10/{}/{}/get_rules_of_resource-{}", f, opname, if extra { "reports-rule-not-active" } else { "misses-active-rule" }),
                            i,
                            format!("after {:?} on {}: {} ; reference {:?}", op, rname, what, want),
                        ));
                    }
                }
                if let Some(seen) = fam::enforced_res(fam, rname) {
                    if let Some((extra, what)) = set_diff(&sc.pool, &seen, &want) {
                        return Some(Violation::new(
                            format!("C10/{}/{}/{}", f, opname, if extra { "enforces-rule-not-active" } else { "drops-active-rule" }),
                            i,
                            format!("after {:?} on {}: {} ; live list {:?} ; reference {:?}", op, rname, what, seen.iter().map(|s| &s.id).collect::<Vec<_>>(), want),
                        ));
                    }
                }
                // behavioural enforcement for flow and isolation: admissions until the first block
                let all_reject = want.iter().all(|j| match &sc.pool[*j] {
                    AnySpec::Flow(s) => s.ctrl == 0 && s.calc == 0,
                    _ => true,
                });
                if (fam == 0 && all_reject) || fam == 3 {
                    let min_thr: Option<u64> = want
                        .iter()
                        .map(|j| match &sc.pool[*j] {
                            AnySpec::Flow(s) => s.threshold as u64,
                            AnySpec::Iso(s) => s.threshold as u64,
                            _ => u64::MAX,
                        })
                        .min();
                    let mut admitted = 0u64;
                    for _ in 0..8 {
                        let o = w.enter(rname, 1, false, None, None);
                        if !o.admitted {
                            break;
                        }
                        admitted += 1;
                        if fam == 0 {
                            w.exit_nth(0, false);
                        }
                    }
                    w.drain();
                    w.advance(11 * SEC);
                    let expect = min_thr.unwrap_or(8).min(8);
                    if admitted != expect {
                        return Some(Violation::new(
                            format!("C10/{}/{}/decisions-{}", f, opname, if admitted > expect { "rule-not-enforced" } else { "stricter-than-rules" }),
                            i,
                            format!("after {:?} on {}: {} admissions before the first block, active rules allow {} (reference {:?})", op, rname, admitted, expect, want),
                        ));
                    }
                    cov.hit("behavioural_probe");
                }
                // behavioural enforcement for hotspot: rules that count (concurrency) or reject (QPS reject,
                // the registered custom strategy) on a positional parameter
                let probeable = fam == 2
                    && !want.is_empty()
                    && want.iter().all(|j| match &sc.pool[*j] {
                        AnySpec::Hot(h) => h.key.is_empty() && (h.metric == 0 || h.ctrl != 1),
                        _ => false,
                    });
                if probeable {
                    let hs: Vec<&HotspotSpec> = want.iter().filter_map(|j| if let AnySpec::Hot(h) = &sc.pool[*j] { Some(h) } else { None }).collect();
                    // (1) a value never seen before: admissions at one instant, entries kept open
                    let v = format!("pv{}_{}", i, rname.len() + rname.bytes().last().unwrap_or(0) as usize);
                    let cap: u64 = hs.iter().map(|h| if h.metric == 0 { h.threshold } else { h.threshold + h.burst }).min().unwrap_or(8).min(8);
                    let mut admitted = 0u64;
                    for _ in 0..8 {
                        let o = w.enter(rname, 1, false, Some(vec![v.clone(), v.clone()]), None);
                        if !o.admitted {
                            break;
                        }
                        admitted += 1;
                    }
                    if admitted != cap {
                        w.drain();
                        return Some(Violation::new(
                            format!("C10/{}/{}/decisions-{}", f, opname, if admitted > cap { "rule-not-enforced" } else { "stricter-than-rules" }),
                            i,
                            format!("after {:?} on {}: {} admissions for a new parameter value before the first block, active rules allow {} (reference {:?})", op, rname, admitted, cap, want),
                        ));
                    }
                    // (2) no cross-talk inside the capacity: the drained value stays drained while two other values pass by
                    let roomy = hs.iter().all(|h| h.capacity == 0 || h.capacity >= 4);
                    let all_qps = hs.iter().all(|h| h.metric == 1);
                    if roomy && all_qps && cap < 8 {
                        for other in ["o1", "o2"] {
                            let ov = format!("{}{}", v, other);
                            let _ = w.enter(rname, 1, false, Some(vec![ov.clone(), ov]), None);
                        }
                        let again = w.enter(rname, 1, false, Some(vec![v.clone(), v.clone()]), None);
                        if again.admitted {
                            w.drain();
                            return Some(Violation::new(
                                format!("C10/{}/{}/decisions-drained-value-admitted-again", f, opname),
                                i,
                                format!("after {:?} on {}: value {} had used up its {} tokens, two other values were requested once, then {} was admitted again at the same instant (capacity of every active rule >= 4; reference {:?})", op, rname, v, cap, v, want),
                            ));
                        }
                        cov.hit("hotspot_cross_talk_probe");
                    }
                    w.drain();
                    w.advance(11 * SEC);
                    cov.hit("hotspot_behavioural_probe");
                }
            }
        }
        cov.state(refmap.iter().fold(fam as u64, |a, (_, v)| a.wrapping_mul(131).wrapping_add(v.iter().map(|x| 1u64 << (x % 60)).sum::<u64>())));
        tr.word(want_all.len() as u64);
    }
    cov.hit(&format!("family_{}", f));
    cov.nontrivial = did_replace && multi_after_append;
    None
}
