//! C09 — system protection rejects inbound traffic exactly when a system metric trips.

use crate::engine::{shrink_ops, Budget, Cov, Prop, RunResult, Violation};
use crate::refwin::{RefWin, K};
use crate::rng::{Rng, Trace};
use crate::timegen;
use crate::world::{SysSpec, World, MS, SEC};
use sentinel_core::system;
use serde::{Deserialize, Serialize};
use serde_json::{json, Value};

/// a system rule whose threshold is resolved, when it is loaded, relative to the value the
/// reference predicts for its metric at that instant: below / equal / above
#[derive(Serialize, Deserialize, Clone, Debug)]
pub struct RelRule {
    pub id: String,
    pub metric: u8,
    pub bbr: u8,
    /// -1: threshold below the observation, 0: equal, +1: above
    pub rel: i8,
}

#[derive(Serialize, Deserialize, Clone, Debug)]
#[serde(tag = "t")]
pub enum Op {
    Enter { r: usize, n: u32, inb: bool },
    Exit { k: usize },
    Adv { ms: u64 },
    Readings { load: f64, cpu: f32 },
    Rules { rules: Vec<RelRule> },
}

#[derive(Serialize, Deserialize, Clone, Debug)]
pub struct Scn {
    pub epoch_ns: u64,
    pub res: Vec<String>,
    pub ops: Vec<Op>,
}

pub struct C09;

#[derive(Default)]
struct Inbound {
    log: RefWin,
    inflight: u64,
    load: f64,
    cpu: f32,
}

impl Inbound {
    fn qps(&self, t: u64) -> f64 {
        self.log.sum(t, 1000, 500, K::Pass) as f64 / 1.0
    }
    fn avg_rt(&self, t: u64) -> f64 {
        let c = self.log.sum(t, 1000, 500, K::Complete);
        if c == 0 {
            0.0
        } else {
            self.log.sum(t, 1000, 500, K::Rt) as f64 / c as f64
        }
    }
    /// estimated capacity: best completed-per-second rate times minimum response time
    fn capacity(&self, t: u64) -> f64 {
        let maxc = self.log.max_bucket(t, 1000, 500, K::Complete) as f64 * 2.0;
        let minrt = self.log.min_rt(t, 1000, 500, 60_000) as f64;
        maxc * minrt / 1000.0
    }
    fn observed(&self, metric: u8, t: u64) -> f64 {
        match metric {
            0 => self.load,
            1 => self.avg_rt(t),
            2 => self.inflight as f64,
            3 => self.qps(t),
            _ => self.cpu as f64,
        }
    }
    fn trips(&self, r: &SysSpec, t: u64) -> bool {
        let v = self.observed(r.metric, t);
        match r.metric {
            1 | 2 | 3 => v >= r.threshold,
            _ => {
                let c = self.inflight as f64;
                v > r.threshold && (r.bbr == 0 || (c > 1.0 && c > self.capacity(t)))
            }
        }
    }
}

impl Prop for C09 {
    fn id(&self) -> &'static str {
        "C09"
    }
    fn gap_ns(&self) -> u64 {
        7_200 * SEC
    }
    fn budget(&self, thorough: bool) -> Budget {
        if thorough {
            Budget { runs: 250_000, wall_s: 240 }
        } else {
            Budget { runs: 5_000, wall_s: 30 }
        }
    }
    fn rule_text(&self) -> &'static str {
        "seeded scenarios: inbound/outbound traffic histories on 1-2 resources that produce QPS, concurrency, RT and completed-per-bucket on the global inbound node; injected load/CPU readings (hook H2); rule sets of 1-4 system rules over all five metric types x both strategies (re)loaded at random points with thresholds resolved from the reference's predicted observation {below, equal, above}. Every inbound decision is compared with the reference (>= for QPS/concurrency/avgRT; strict > plus the BBR capacity condition for load/CPU); block type, named rule (must trip) and reported value are checked; outbound entries must never be rejected. Non-trivial = an inbound admission and an inbound rejection; distinct = distinct trace hash."
    }
    fn components(&self) -> Value {
        json!({"real": ["sentinel-core: EntryBuilder, slot chain, system slot/manager, global inbound node (sliding windows, concurrency, min rt, max completed per bucket)"],
               "stub": ["clock (virtual, hook H1)", "system load/CPU readings (injected, hook H2; collectors never started)", "getrandom (seeded)", "logger (a sink that formats every record of the library and discards it)"]})
    }

    fn generate(&self, rng: &mut Rng, slot_ns: u64, _avoid: bool) -> Value {
        let epoch_ns = slot_ns + timegen::phase_ns(rng, 20_000);
        let tag = rng.below(0xffffff);
        let nres = rng.range(1, 2);
        let res: Vec<String> = (0..nres).map(|i| format!("c09_{:x}_{}", tag, i)).collect();
        let nops = rng.range(25, 80);
        let mut ops = vec![];
        let mut now_ms = epoch_ns / MS;
        // swarm: which metric families are enabled in this run
        let metrics: Vec<u8> = {
            let mut m: Vec<u8> = (0..5).filter(|_| rng.chance(1, 2)).collect();
            if m.is_empty() {
                m.push(rng.below(5) as u8);
            }
            m
        };
        let mut rid = 0;
        let mut gen_rules = |rng: &mut Rng| -> Op {
            let k = rng.range(1, 4);
            let mut rules: Vec<RelRule> = vec![];
            for _ in 0..k {
                rid += 1;
                let r = RelRule { id: format!("s{}", rid), metric: *rng.pick(&metrics), bbr: rng.below(2) as u8, rel: *rng.pick(&[-1i8, 0, 0, 1, 1]) };
                if rules.iter().any(|x| x.metric == r.metric && x.bbr == r.bbr && x.rel == r.rel) {
                    continue;
                }
                rules.push(r);
            }
            Op::Rules { rules }
        };
        ops.push(Op::Readings { load: rng.range(0, 100) as f64 / 100.0, cpu: rng.range(0, 100) as f32 });
        let maxbatch = *rng.pick(&[1u64, 1, 2, 3]);
        for i in 0..nops {
            if i == 3 {
                ops.push(gen_rules(rng));
                continue;
            }
            match rng.weighted(&[10, 6, 7, 2, 3]) {
                0 => ops.push(Op::Enter { r: rng.below(nres) as usize, n: rng.range(1, maxbatch) as u32, inb: rng.chance(4, 5) }),
                1 => ops.push(Op::Exit { k: rng.below(6) as usize }),
                2 => {
                    let mut ms = match rng.below(4) {
                        0 => rng.range(0, 30),
                        1 => rng.range(0, 400),
                        _ => timegen::dt_ms(rng, now_ms, 500, 1000),
                    };
                    let left = (epoch_ns / MS + 6_000_000).saturating_sub(now_ms);
                    if ms > left {
                        ms = left;
                    }
                    now_ms += ms;
                    ops.push(Op::Adv { ms });
                }
                3 => ops.push(Op::Readings { load: rng.range(0, 100) as f64 / 100.0, cpu: rng.range(0, 1000) as f32 / 10.0 }),
                _ => ops.push(gen_rules(rng)),
            }
        }
        serde_json::to_value(Scn { epoch_ns, res, ops }).unwrap()
    }

    fn execute(&self, scenario: &Value, cov: &mut Cov) -> RunResult {
        let sc: Scn = serde_json::from_value(scenario.clone()).expect("C09 scenario");
        let mut w = World::start(sc.epoch_ns);
        let mut tr = Trace::default();
        let viol = run(&sc, &mut w, &mut tr, cov);
        w.drain();
        sentinel_core::system_metric::verif_set_readings(0.0, 0.0, 0);
        cov.sim_ns += w.sim_ns;
        cov.ops += w.ops;
        RunResult::new(tr.hash(), viol)
    }

    fn shrink(&self, scenario: &Value) -> Vec<Value> {
        let mut out = shrink_ops(scenario);
        let sc: Scn = serde_json::from_value(scenario.clone()).unwrap();
        for (i, op) in sc.ops.iter().enumerate() {
            if let Op::Rules { rules } = op {
                if rules.len() > 1 {
                    for j in 0..rules.len() {
                        let mut c = sc.clone();
                        let mut r = rules.clone();
                        r.remove(j);
                        c.ops[i] = Op::Rules { rules: r };
                        out.push(serde_json::to_value(c).unwrap());
                    }
                }
            }
            if let Op::Enter { r, n, inb } = op {
                if *n > 1 {
                    let mut c = sc.clone();
                    c.ops[i] = Op::Enter { r: *r, n: 1, inb: *inb };
                    out.push(serde_json::to_value(c).unwrap());
                }
            }
        }
        out
    }
}

fn run(sc: &Scn, w: &mut World, tr: &mut Trace, cov: &mut Cov) -> Option<Violation> {
    let mut inb = Inbound::default();
    let mut rules: Vec<SysSpec> = vec![];
    let (mut n_adm, mut n_rej) = (0u64, 0u64);
    for (i, op) in sc.ops.iter().enumerate() {
        match op {
            Op::Adv { ms } => {
                w.advance(ms * MS);
                tr.word(*ms);
            }
            Op::Readings { load, cpu } => {
                inb.load = *load;
                inb.cpu = *cpu;
                sentinel_core::system_metric::verif_set_readings(*load, *cpu, 0);
                w.ops += 1;
            }
            Op::Rules { rules: rel } => {
                let t = w.now_ms();
                rules.clear();
                for r in rel {
                    let obs = inb.observed(r.metric, t);
                    let delta = match r.metric {
                        0 => 0.01,
                        1 => 0.5,
                        4 => 0.1f32 as f64,
                        _ => 1.0,
                    };
                    let mut th = obs + r.rel as f64 * delta;
                    if th < 0.0 {
                        th = 0.0;
                    }
                    if r.metric == 0 && th > 1.0 {
                        th = 1.0;
                    }
                    if r.metric == 4 && th > 100.0 {
                        th = 100.0;
                    }
                    let spec = SysSpec { id: r.id.clone(), metric: r.metric, threshold: th, bbr: r.bbr };
                    if rules.iter().any(|x| x.rule() == spec.rule()) {
                        continue;
                    }
                    if th == obs {
                        cov.hit(&format!("threshold_equals_observation_metric{}", r.metric));
                    }
                    rules.push(spec);
                }
                system::load_rules(rules.iter().map(|r| r.rule()).collect());
                let loaded = system::get_rules();
                if loaded.len() != rules.len() {
                    return Some(Violation::new("C09/load/rule-count", i, format!("{} valid rules given, {} loaded", rules.len(), loaded.len())));
                }
                // a re-load of an equal set keeps the rule objects (and ids) of the earlier load
                for spec in rules.iter_mut() {
                    let me = spec.rule();
                    match loaded.iter().find(|l| ***l == *me) {
                        Some(l) => spec.id = l.id.clone(),
                        None => return Some(Violation::new("C09/load/rule-missing", i, format!("{:?} not among loaded rules", spec))),
                    }
                }
                w.ops += 1;
                tr.word(rules.len() as u64);
            }
            Op::Exit { k } => {
                if let Some(e) = w.exit_nth(*k, false) {
                    if e.inbound {
                        let t = w.now_ms();
                        inb.log.add(t, K::Rt, t - e.start_ms);
                        inb.log.add(t, K::Complete, e.batch as u64);
                        inb.inflight -= 1;
                    }
                }
            }
            Op::Enter { r, n, inb: inbound } => {
                let t = w.now_ms();
                let tripping: Vec<&SysSpec> = rules.iter().filter(|x| inb.trips(x, t)).collect();
                for x in &rules {
                    if x.bbr == 1 && (x.metric == 0 || x.metric == 4) && inb.observed(x.metric, t) > x.threshold {
                        cov.hit(if inb.trips(x, t) { "bbr_over_capacity_trips" } else { "bbr_within_capacity_passes" });
                    }
                }
                let obs = w.enter(&sc.res[*r % sc.res.len()], *n, *inbound, None, None);
                tr.word(obs.admitted as u64);
                if !*inbound {
                    if !obs.admitted {
                        return Some(Violation::new("C09/outbound-rejected", i, obs.block.map(|b| b.text).unwrap_or_default()));
                    }
                    if !tripping.is_empty() {
                        cov.hit("outbound_admitted_while_system_rule_trips");
                    }
                    continue;
                }
                let expect_reject = !tripping.is_empty();
                if obs.admitted == expect_reject {
                    let sig = if obs.admitted { "C09/decide/admitted-though-rule-trips" } else { "C09/decide/rejected-though-no-rule-trips" };
                    return Some(Violation::new(
                        sig,
                        i,
                        format!(
                            "t={} rules={:?} observed: qps={} conc={} avg_rt={} load={} cpu={} capacity={}; tripping={:?}; block={:?}",
                            t,
                            rules,
                            inb.qps(t),
                            inb.inflight,
                            inb.avg_rt(t),
                            inb.load,
                            inb.cpu,
                            inb.capacity(t),
                            tripping.iter().map(|x| &x.id).collect::<Vec<_>>(),
                            obs.block.as_ref().map(|b| &b.text)
                        ),
                    ));
                }
                if obs.admitted {
                    n_adm += 1;
                    inb.log.add(t, K::Pass, *n as u64);
                    inb.inflight += 1;
                } else {
                    n_rej += 1;
                    let b = obs.block.unwrap();
                    tr.str(b.rule_id.as_deref().unwrap_or("-"));
                    if b.block_type != "SystemFlow" {
                        return Some(Violation::new("C09/report/block-type", i, b.text));
                    }
                    let named = match b.rule_id.as_ref().and_then(|id| tripping.iter().find(|x| &x.id == id)) {
                        Some(x) => *x,
                        None => return Some(Violation::new("C09/report/rule-does-not-trip", i, b.text)),
                    };
                    cov.hit(&format!("rejected_by_metric{}", named.metric));
                    let want = inb.observed(named.metric, t);
                    let got: Option<f64> = b.snapshot.as_ref().and_then(|s| s.parse::<f64>().ok());
                    match got {
                        Some(g) if (g - want).abs() <= 1e-9 * want.abs().max(1.0) => {}
                        _ => {
                            return Some(Violation::new("C09/report/observed-value", i, format!("reported value {:?}, reference observation {}: {}", b.snapshot, want, b.text)));
                        }
                    }
                }
            }
        }
        let t = w.now_ms();
        cov.state((inb.qps(t) as u64) * 1000 + inb.inflight * 10 + rules.len() as u64);
        tr.word(t);
    }
    cov.add("inbound_admitted", n_adm);
    cov.add("inbound_rejected", n_rej);
    cov.nontrivial = n_adm > 0 && n_rej > 0;
    None
}
