//! C12 — valid rules are enforceable without panics; invalid input never poisons Sentinel.

use crate::engine::{shrink_ops, Budget, Cov, Prop, RunResult, Violation};
use crate::fam::{self, AnySpec, FAMILIES};
use crate::props::c10::health_probe;
use crate::rng::{Rng, Trace};
use crate::seams;
use crate::world::{BreakerSpec, FlowSpec, HotspotSpec, IsoSpec, SysSpec, World, MS, SEC};
use serde::{Deserialize, Serialize};
use serde_json::{json, Value};

#[derive(Serialize, Deserialize, Clone, Debug)]
#[serde(tag = "t")]
pub enum Op {
    Enter { res: String, n: u32, inb: bool, args: Option<Vec<String>>, att: Option<Vec<(String, String)>> },
    Exit { k: usize, err: bool },
    Adv { ms: u64 },
}

#[derive(Serialize, Deserialize, Clone, Debug)]
pub struct Scn {
    pub epoch_ns: u64,
    pub rules: Vec<AnySpec>,
    /// optional rule of a second family, loaded (load-all) before the rules under test: interactions between slots
    #[serde(default)]
    pub extra: Option<AnySpec>,
    /// 0 load-all, 1 load-for-resource, 2 append
    pub entry_point: u8,
    pub ops: Vec<Op>,
    /// entries opened on the rules' resource BEFORE the rules are loaded (a rule arriving while calls
    /// are in flight); they are exited by later Exit ops or at the end
    #[serde(default)]
    pub early: u8,
}

pub struct C12;

const THRESH: [f64; 12] = [0.0, 0.001, 0.5, 1.0, 2.0, 3.0, 10.0, 100.0, 1e6, -1.0, f64::NAN, -0.0];
const INTERVALS: [u32; 12] = [0, 1, 2, 7, 250, 500, 1000, 1500, 10_000, 20_000, 600_000, 999];

fn gen_rule(rng: &mut Rng, fam: usize, res: &[String], id: String) -> AnySpec {
    let r = rng.pick(res).clone();
    match fam {
        0 => AnySpec::Flow(FlowSpec {
            id,
            res: if rng.chance(1, 20) { String::new() } else { r },
            ref_res: match rng.below(4) {
                0 => String::new(),
                1 => "c12_never_seen".into(),
                _ => rng.pick(res).clone(),
            },
            calc: *rng.pick(&[0u8, 0, 1, 2, 9]),
            ctrl: *rng.pick(&[0u8, 0, 1, 9]),
            relation: *rng.pick(&[0u8, 0, 1]),
            threshold: *rng.pick(&THRESH),
            warm_period: *rng.pick(&[0u32, 1, 10, 600]),
            warm_cold: *rng.pick(&[0u32, 1, 2, 3, 10]),
            max_queue_ms: *rng.pick(&[0u32, 1, 500, 600_000]),
            interval_ms: *rng.pick(&INTERVALS),
            mem: match rng.below(4) {
                0 => [0, 0, 0, 0],
                1 => [1000, 100, 1024, 2048],
                2 => [100, 1000, 1024, 2048],
                _ => [1000, 100, 1 << 20, 1 << 10],
            },
        }),
        1 => AnySpec::Breaker(BreakerSpec {
            id,
            res: if rng.chance(1, 20) { String::new() } else { r },
            strategy: *rng.pick(&[0u8, 1, 2, 9]),
            retry_ms: *rng.pick(&[0u32, 1, 1000, 600_000]),
            min_req: *rng.pick(&[0u64, 1, 5, 1_000_000]),
            interval_ms: *rng.pick(&INTERVALS),
            buckets: *rng.pick(&[0u32, 1, 2, 3, 7, 1000]),
            max_rt: *rng.pick(&[0u64, 1, 100, 600_000]),
            threshold: *rng.pick(&[0.0f64, 0.5, 1.0, 1.5, 3.0, 1e6, -1.0, f64::NAN]),
        }),
        2 => AnySpec::Hot(HotspotSpec {
            id,
            res: if rng.chance(1, 20) { String::new() } else { r },
            metric: rng.below(2) as u8,
            ctrl: *rng.pick(&[0u8, 1, 9]),
            index: rng.range(0, 6) as i64 - 3,
            key: rng.pick(&["", "", "k1", " k1 ", " "]).to_string(),
            threshold: *rng.pick(&[0u64, 1, 2, 1_000_000]),
            max_queue_ms: *rng.pick(&[0u64, 1, 500, 600_000]),
            burst: *rng.pick(&[0u64, 1, 1_000_000]),
            duration_s: *rng.pick(&[0u64, 1, 2, 600]),
            capacity: *rng.pick(&[0usize, 1, 2, 100]),
            specific: if rng.chance(1, 3) { vec![("a".to_string(), *rng.pick(&[0u64, 1, 1_000_000]))] } else { vec![] },
        }),
        3 => AnySpec::Iso(IsoSpec { id, res: if rng.chance(1, 10) { String::new() } else { r }, threshold: *rng.pick(&[0u32, 1, 2, 1_000_000]) }),
        _ => AnySpec::Sys(SysSpec {
            id,
            metric: rng.below(5) as u8,
            threshold: *rng.pick(&[0.0f64, 0.5, 1.0, 1.5, 50.0, 100.0, 101.0, 1e6, -1.0, f64::NAN]),
            bbr: rng.below(2) as u8,
        }),
    }
}

impl Prop for C12 {
    fn id(&self) -> &'static str {
        "C12"
    }
    fn gap_ns(&self) -> u64 {
        // long throttling waits (up to 600 s each) are virtual
        15_000 * SEC
    }
    fn budget(&self, thorough: bool) -> Budget {
        if thorough {
            Budget { runs: 400_000, wall_s: 300 }
        } else {
            Budget { runs: 10_000, wall_s: 30 }
        }
    }
    fn rule_text(&self) -> &'static str {
        "seeded walk over the rule space: 1-2 rules of one family drawn from the cross product of all enum-valued fields (strategies incl. unregistered custom ones, relation to another resource incl. one never seen, metric types) with boundary numerics inside the sane range and out-of-range values (negative, NaN, zero duration, empty/blank names), loaded through load-all / load-for-resource / append (one run in four with 1-3 entries already in flight on the resource when the rules arrive), followed by 3-12 entries (one run in ten: a valid hotspot rule with a parameter cache of 1-3 values and 6-16 single-argument entries over four values) (batch {0,1,2,10^6}, no/short/long argument lists, attachments, inbound/outbound, empty resource name), time steps and exits; every call under catch_unwind and the run watchdog; rules rejected by the validity check must not be reported; a health probe of all five managers and of an unrelated resource must succeed afterwards. Non-trivial = a rule accepted by the validity check was loaded and >= 1 entry was built against it; distinct = distinct trace hash."
    }
    fn components(&self) -> Value {
        json!({"real": ["sentinel-core: all five rule families (validity checks, managers, builders, slots, checkers, calculators), EntryBuilder, slot chain"],
               "stub": ["clock and sleep (virtual, hook H1: throttling waits cost no wall time)", "getrandom (seeded)", "logger (a sink that formats every record of the library and discards it)", "system collectors (never started; sysinfo only for total memory)"]})
    }

    fn generate(&self, rng: &mut Rng, slot_ns: u64, avoid: bool) -> Value {
        let epoch_ns = slot_ns;
        let fam = rng.below(5) as usize;
        let tag = rng.below(0xffffff);
        let res: Vec<String> = (0..2).map(|i| format!("c12_{:x}_{}", tag, i)).collect();
        let nrules = if rng.chance(1, 4) { 2 } else { 1 };
        let mut rules: Vec<AnySpec> = (0..nrules)
            .map(|j| {
                let id = format!("r{}_{:x}", j, rng.below(0xffff));
                gen_rule(rng, fam, &res, id)
            })
            .collect();
        if avoid {
            // known finding avoidance: no flow rule related to another resource
            for r in rules.iter_mut() {
                if let AnySpec::Flow(f) = r {
                    f.relation = 0;
                }
            }
        }
        let entry_point = rng.below(3) as u8;
        let extra = if rng.chance(1, 3) {
            let f2 = (fam + rng.range(1, 4) as usize) % 5;
            let xid = format!("x_{:x}", rng.below(0xffff));
            let mut e = gen_rule(rng, f2, &res, xid);
            if avoid {
                if let AnySpec::Flow(f) = &mut e {
                    f.relation = 0;
                }
            }
            Some(e)
        } else {
            None
        };
        let nops = rng.range(3, 12);
        let mut ops = vec![];
        for _ in 0..nops {
            match rng.weighted(&[7, 3, 2]) {
                0 => {
                    let rname = match rng.below(12) {
                        0 => String::new(),
                        1 => "c12_unrelated".to_string(),
                        _ => rng.pick(&res).clone(),
                    };
                    let args = match rng.below(5) {
                        0 => None,
                        1 => Some(vec![]),
                        2 => Some(vec![rng.pick(&["a", "b", "c", "d"]).to_string()]),
                        3 => Some(vec![rng.pick(&["a", "b", "c", "d"]).to_string(), rng.pick(&["a", "b"]).to_string()]),
                        _ => {
                            let off = rng.below(3);
                            Some((0..rng.range(3, 6)).map(|i| format!("v{}", (i + off) % 3)).collect())
                        }
                    };
                    let att = match rng.below(4) {
                        0 => Some(vec![("k1".to_string(), "a".to_string())]),
                        1 => Some(vec![]),
                        _ => None,
                    };
                    ops.push(Op::Enter { res: rname, n: *rng.pick(&[0u32, 1, 1, 2, 1_000_000]), inb: rng.chance(1, 2), args, att });
                }
                1 => ops.push(Op::Exit { k: rng.below(4) as usize, err: rng.chance(1, 2) }),
                _ => ops.push(Op::Adv { ms: *rng.pick(&[0u64, 1, 499, 500, 1000, 10_000, 600_000]) }),
            }
        }
        if rng.chance(1, 10) {
            // small-cache walk: a valid hotspot rule whose parameter cache holds fewer values than the
            // traffic carries, and a longer run of single-argument entries over four values
            let r = res[0].clone();
            let rule = AnySpec::Hot(HotspotSpec {
                id: format!("s_{:x}", rng.below(0xffff)),
                res: r.clone(),
                metric: rng.below(2) as u8,
                ctrl: rng.below(2) as u8,
                index: *rng.pick(&[0i64, 0, -1]),
                key: String::new(),
                threshold: *rng.pick(&[1u64, 2, 1_000_000]),
                max_queue_ms: *rng.pick(&[0u64, 500]),
                burst: *rng.pick(&[0u64, 1]),
                duration_s: *rng.pick(&[1u64, 2, 600]),
                capacity: *rng.pick(&[1usize, 2, 2, 3]),
                specific: vec![],
            });
            let mut ops = vec![];
            for _ in 0..rng.range(6, 16) {
                match rng.weighted(&[10, 2, 1]) {
                    0 => ops.push(Op::Enter { res: r.clone(), n: 1, inb: false, args: Some(vec![rng.pick(&["a", "b", "c", "d"]).to_string()]), att: None }),
                    1 => ops.push(Op::Exit { k: rng.below(3) as usize, err: false }),
                    _ => ops.push(Op::Adv { ms: *rng.pick(&[1u64, 499, 1000]) }),
                }
            }
            let early = if rng.chance(1, 3) { rng.range(1, 3) as u8 } else { 0 };
            return serde_json::to_value(Scn { epoch_ns, rules: vec![rule], extra: None, entry_point, ops, early }).unwrap();
        }
        let early = if rng.chance(1, 4) { rng.range(1, 3) as u8 } else { 0 };
        serde_json::to_value(Scn { epoch_ns, rules, extra, entry_point, ops, early }).unwrap()
    }

    fn execute(&self, scenario: &Value, cov: &mut Cov) -> RunResult {
        let sc: Scn = serde_json::from_value(scenario.clone()).expect("C12 scenario");
        let mut w = World::start(sc.epoch_ns);
        let mut tr = Trace::default();
        let viol = run(&sc, &mut w, &mut tr, cov);
        if viol.is_none() {
            w.drain();
        } else {
            // entries may be in an undefined state after a panic: forget them, the process is discarded
            std::mem::forget(std::mem::take(&mut w.open));
        }
        cov.sim_ns += w.sim_ns;
        cov.ops += w.ops;
        RunResult::new(tr.hash(), viol)
    }

    fn shrink(&self, scenario: &Value) -> Vec<Value> {
        let mut out = shrink_ops(scenario);
        let sc: Scn = serde_json::from_value(scenario.clone()).unwrap();
        if sc.rules.len() > 1 {
            for i in 0..sc.rules.len() {
                let mut c = sc.clone();
                c.rules.remove(i);
                out.push(serde_json::to_value(c).unwrap());
            }
        }
        if sc.early > 0 {
            let mut c = sc.clone();
            c.early -= 1;
            out.push(serde_json::to_value(c).unwrap());
        }
        if sc.extra.is_some() {
            let mut c = sc.clone();
            c.extra = None;
            out.push(serde_json::to_value(c).unwrap());
        }
        for (i, op) in sc.ops.iter().enumerate() {
            if let Op::Enter { res, n, inb, args, att } = op {
                if *n != 1 {
                    let mut c = sc.clone();
                    c.ops[i] = Op::Enter { res: res.clone(), n: 1, inb: *inb, args: args.clone(), att: att.clone() };
                    out.push(serde_json::to_value(c).unwrap());
                }
                if args.is_some() || att.is_some() {
                    let mut c = sc.clone();
                    c.ops[i] = Op::Enter { res: res.clone(), n: *n, inb: *inb, args: None, att: None };
                    out.push(serde_json::to_value(c).unwrap());
                }
            }
        }
        out
    }
}

fn guarded<T>(f: impl FnOnce() -> T) -> Result<T, (String, String)> {
    std::panic::catch_unwind(std::panic::AssertUnwindSafe(f)).map_err(|_| seams::take_last_panic().unwrap_or(("?".into(), "?".into())))
}

fn describe(r: &AnySpec) -> String {
    match r {
        AnySpec::Flow(f) => format!("flow/calc{}-ctrl{}-rel{}", f.calc, f.ctrl, f.relation),
        AnySpec::Breaker(b) => format!("breaker/strategy{}", b.strategy),
        AnySpec::Hot(h) => format!("hotspot/metric{}-ctrl{}", h.metric, h.ctrl),
        AnySpec::Iso(_) => "isolation".into(),
        AnySpec::Sys(s) => format!("system/metric{}-bbr{}", s.metric, s.bbr),
    }
}

fn run(sc: &Scn, w: &mut World, tr: &mut Trace, cov: &mut Cov) -> Option<Violation> {
    let fam = sc.rules[0].fam();
    let f = FAMILIES[fam];
    let any_valid = sc.rules.iter().any(|r| r.is_valid());
    let kinds: Vec<String> = sc.rules.iter().map(describe).collect();
    if let Some(e) = &sc.extra {
        let ef = e.fam();
        if let Err((loc, msg)) = guarded(|| {
            fam::load_all(ef, &[e.clone()]);
        }) {
            let poisoned = health_probe();
            return Some(Violation::new(
                format!("C12/{}/load/panic{}", FAMILIES[ef], if poisoned.is_some() { "-poisons-manager" } else { "" }),
                0,
                format!("load of {:?} panicked at {}: {}", e, loc, msg),
            ));
        }
        cov.hit("with_rule_of_second_family");
    }
    // ---- calls that are already in flight when the rules arrive
    if sc.early > 0 {
        let r0 = sc.rules[0].res();
        for k in 0..sc.early {
            let arg = ["a", "b"][k as usize % 2].to_string();
            if let Err((loc, msg)) = guarded(|| w.enter(&r0, 1, false, Some(vec![arg.clone()]), None)) {
                return Some(Violation::new(format!("C12/{}/build-before-load/panic", f), 0, format!("at {}: {}", loc, msg)));
            }
        }
        cov.hit("entries_in_flight_when_rules_arrive");
    }
    // ---- load through the chosen entry point
    let ep_name = ["load", "load-for-resource", "append"][sc.entry_point as usize % 3];
    let loaded = guarded(|| match sc.entry_point % 3 {
        0 => {
            fam::load_all(fam, &sc.rules);
        }
        1 => {
            if fam == 4 {
                fam::load_all(fam, &sc.rules);
            } else {
                let mut by_res: Vec<String> = sc.rules.iter().map(|r| r.res()).collect();
                by_res.sort();
                by_res.dedup();
                for r in by_res {
                    let specs: Vec<AnySpec> = sc.rules.iter().filter(|x| x.res() == r).cloned().collect();
                    let _ = fam::load_res(fam, &r, &specs);
                }
            }
        }
        _ => {
            for r in &sc.rules {
                fam::append(r);
            }
        }
    });
    w.ops += 1;
    tr.str(ep_name);
    if let Err((loc, msg)) = loaded {
        let poisoned = health_probe();
        return Some(Violation::new(
            format!("C12/{}/{}/panic{}", f, ep_name, if poisoned.is_some() { "-poisons-manager" } else { "" }),
            0,
            format!("{} of {:?} panicked at {}: {}{}", ep_name, kinds, loc, msg, poisoned.map(|p| format!("; {}", p)).unwrap_or_default()),
        ));
    }
    // rules rejected by the validity check never appear
    let reported = match guarded(|| fam::get_all(fam)) {
        Ok(r) => r,
        Err((loc, msg)) => return Some(Violation::new(format!("C12/{}/get_rules/panic", f), 0, format!("at {}: {}", loc, msg))),
    };
    for r in &sc.rules {
        if !r.is_valid() {
            cov.hit("invalid_rule_injected");
            if reported.iter().any(|s| s.id == r.id()) {
                return Some(Violation::new(format!("C12/{}/{}/invalid-rule-reported", f, ep_name), 0, format!("{:?}", r)));
            }
        } else {
            cov.hit(&format!("valid_{}", describe(r)));
        }
    }
    // ---- entries
    let mut built = 0u64;
    for (i, op) in sc.ops.iter().enumerate() {
        match op {
            Op::Adv { ms } => w.advance(ms * MS),
            Op::Enter { res, n, inb, args, att } => {
                let r = guarded(|| w.enter(res, *n, *inb, args.clone(), att.clone()));
                match r {
                    Ok(o) => {
                        built += 1;
                        tr.word(o.admitted as u64);
                        if o.t1_ns - o.t0_ns > 0 {
                            cov.hit("virtual_wait_in_build");
                        }
                    }
                    Err((loc, msg)) => {
                        let poisoned = health_probe();
                        let kind = if any_valid { "build-panics" } else { "build-panics-after-invalid-rule" };
                        return Some(Violation::new(
                            format!("C12/{}/{}@{}{}", f, kind, loc.trim_start_matches("sentinel-core/src/core/"), if poisoned.is_some() { "-and-poisons" } else { "" }),
                            i,
                            format!("build(res={:?}, n={}, args={:?}) with rules {:?} panicked at {}: {}{}", res, n, args, sc.rules, loc, msg, poisoned.map(|p| format!("; {}", p)).unwrap_or_default()),
                        ));
                    }
                }
            }
            Op::Exit { k, err } => {
                let r = guarded(|| {
                    w.exit_nth(*k, *err);
                });
                if let Err((loc, msg)) = r {
                    let poisoned = health_probe();
                    return Some(Violation::new(
                        format!("C12/{}/exit-panics@{}{}", f, loc.trim_start_matches("sentinel-core/src/core/"), if poisoned.is_some() { "-and-poisons" } else { "" }),
                        i,
                        format!("exit with rules {:?} panicked at {}: {}", sc.rules, loc, msg),
                    ));
                }
            }
        }
        tr.word(w.now_ms());
    }
    let r = guarded(|| w.drain());
    if let Err((loc, msg)) = r {
        return Some(Violation::new(format!("C12/{}/exit-panics@{}", f, loc.trim_start_matches("sentinel-core/src/core/")), sc.ops.len(), format!("final exits panicked at {}: {}", loc, msg)));
    }
    // ---- later calls keep working
    if let Some(p) = health_probe() {
        return Some(Violation::new(format!("C12/{}/unusable-afterwards", f), sc.ops.len(), p));
    }
    cov.hit(&format!("family_{}", f));
    cov.state(crate::rng::fnv1a(format!("{:?}{}", kinds, sc.entry_point).as_bytes()));
    cov.nontrivial = any_valid && built > 0;
    None
}
