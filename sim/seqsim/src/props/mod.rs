pub mod c01;
