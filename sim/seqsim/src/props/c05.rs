//! C05 — concurrency caps (isolation, hotspot concurrency) hold and are reported rightly.

use crate::engine::{shrink_ops, Budget, Cov, Prop, RunResult, Violation};
use crate::rng::{Rng, Trace};
use crate::timegen;
use crate::world::{HotspotSpec, IsoSpec, World, MS, SEC};
use sentinel_core::base::ConcurrencyStat;
use sentinel_core::{hotspot, isolation, stat};
use serde::{Deserialize, Serialize};
use serde_json::{json, Value};
use std::collections::HashMap;

#[derive(Serialize, Deserialize, Clone, Debug)]
#[serde(tag = "t")]
pub enum Op {
    Enter {
        n: u32,
        args: Option<Vec<String>>,
        att: Option<Vec<(String, String)>>,
        #[serde(default)]
        inb: bool,
    },
    Exit { k: usize },
    Adv { ms: u64 },
}

#[derive(Serialize, Deserialize, Clone, Debug)]
pub struct Scn {
    pub epoch_ns: u64,
    pub res: String,
    pub iso: Vec<IsoSpec>,
    pub hot: Vec<HotspotSpec>,
    pub ops: Vec<Op>,
}

pub struct C05;

/// which parameter value a hotspot rule extracts from an entry (documented semantics: key in
/// attachments has priority, else positional index, negative counted from the end)
pub fn extract(rule: &HotspotSpec, args: &Option<Vec<String>>, att: &Option<Vec<(String, String)>>) -> Option<String> {
    if let Some(att) = att {
        let key = rule.key.trim();
        if !key.is_empty() {
            // later duplicates of a key win when collected into a map
            if let Some((_, v)) = att.iter().rev().find(|(k, _)| k == key) {
                return Some(v.clone());
            }
        }
    }
    let args = args.as_ref()?;
    let mut idx = rule.index;
    if idx < 0 {
        idx += args.len() as i64;
    }
    if idx < 0 || idx as usize >= args.len() {
        return None;
    }
    Some(args[idx as usize].clone())
}

impl Prop for C05 {
    fn id(&self) -> &'static str {
        "C05"
    }
    fn gap_ns(&self) -> u64 {
        7_200 * SEC
    }
    fn budget(&self, thorough: bool) -> Budget {
        if thorough {
            Budget { runs: 300_000, wall_s: 240 }
        } else {
            Budget { runs: 6_000, wall_s: 30 }
        }
    }
    fn rule_text(&self) -> &'static str {
        "seeded scenarios on one resource: 0-3 isolation rules (threshold 1..6) and/or 0-3 hotspot concurrency rules (positional incl. negative index, keyed, override tables, capacity >= distinct values), 20-70 ops over Enter(batch 1..k, args/attachments incl. missing)/Exit(PRNG-chosen open entry)/Advance. Every decision compared with per-resource and per-(rule,value) in-flight reference counts; block type and named rule checked. Non-trivial = run has an admission, a rejection and an exit followed by an admission; distinct = distinct trace hash."
    }
    fn components(&self) -> Value {
        json!({"real": ["sentinel-core: EntryBuilder, slot chain, isolation slot/manager, hotspot slot/manager/concurrency stat slot/LRU counter cache, resource node concurrency"],
               "stub": ["clock (virtual, hook H1)", "getrandom (seeded)", "logger (a sink that formats every record of the library and discards it)"]})
    }

    fn generate(&self, rng: &mut Rng, slot_ns: u64, _avoid: bool) -> Value {
        let epoch_ns = slot_ns + timegen::phase_ns(rng, 20_000);
        let res = format!("c05_{:x}", rng.below(0xffffff));
        let mode = rng.below(3); // 0 isolation only, 1 hotspot only, 2 both
        let mut iso = vec![];
        let mut hot = vec![];
        if mode != 1 {
            for j in 0..rng.range(1, 3) {
                let t = rng.range(1, 6) as u32;
                if iso.iter().any(|x: &IsoSpec| x.threshold == t) {
                    continue;
                }
                iso.push(IsoSpec { id: format!("i{}_{:x}", j, rng.below(0xffff)), res: res.clone(), threshold: t });
            }
        }
        // one scenario in three: the empty string is one of the parameter values (a legal value like any other)
        let values = if rng.chance(1, 3) { ["u1", "", "u3", "u4", "u5"] } else { ["u1", "u2", "u3", "u4", "u5"] };
        let nvals = rng.range(1, 5) as usize;
        if mode != 0 {
            for j in 0..rng.range(1, 3) {
                let keyed = rng.chance(1, 3);
                let mut specific = vec![];
                for v in &values[..nvals] {
                    if rng.chance(1, 4) {
                        specific.push((v.to_string(), rng.range(1, 5)));
                    }
                }
                let h = HotspotSpec {
                    id: format!("h{}_{:x}", j, rng.below(0xffff)),
                    res: res.clone(),
                    metric: 0,
                    ctrl: 0,
                    index: if keyed { *rng.pick(&[0i64, -1]) } else { *rng.pick(&[0i64, 1, 2, -1, -2, -3]) },
                    key: if keyed { rng.pick(&["k1", "k2"]).to_string() } else { String::new() },
                    threshold: rng.range(1, 5),
                    max_queue_ms: 0,
                    burst: 0,
                    duration_s: rng.range(0, 1),
                    capacity: *rng.pick(&[0usize, 5, 8, 100]),
                    specific,
                };
                if hot.iter().any(|x: &HotspotSpec| x.index == h.index && x.key == h.key && x.threshold == h.threshold && x.capacity == h.capacity && x.duration_s == h.duration_s && x.specific == h.specific) {
                    continue;
                }
                hot.push(h);
            }
            // an override of 0 ("ban this value"), only with a single hotspot rule: the library admits the
            // very first sighting of a value unchecked, which the oracle tolerates for a cap of 0 only
            if hot.len() == 1 && rng.chance(1, 4) {
                let v = values[rng.below(nvals as u64) as usize].to_string();
                hot[0].specific.retain(|(k, _)| *k != v);
                hot[0].specific.push((v, 0));
            }
        }
        let nops = rng.range(20, 70);
        let maxbatch = *rng.pick(&[1u64, 1, 1, 2, 3]);
        let w = [rng.range(5, 10), rng.range(2, 7), 1];
        let mut ops = vec![];
        for _ in 0..nops {
            match rng.weighted(&w) {
                0 => {
                    let args = match rng.below(8) {
                        0 => None,
                        1 => Some(vec![]),
                        _ => {
                            let len = rng.range(1, 3);
                            Some((0..len).map(|_| values[rng.below(nvals as u64) as usize].to_string()).collect())
                        }
                    };
                    let att = if rng.chance(1, 3) {
                        Some(vec![(rng.pick(&["k1", "k2", "zz"]).to_string(), values[rng.below(nvals as u64) as usize].to_string())])
                    } else {
                        None
                    };
                    ops.push(Op::Enter { n: rng.range(1, maxbatch) as u32, args, att, inb: rng.chance(1, 3) });
                }
                1 => ops.push(Op::Exit { k: rng.below(8) as usize }),
                _ => ops.push(Op::Adv { ms: *rng.pick(&[0u64, 1, 499, 500, 1000, 2500, 10_000, 60_000]) }),
            }
        }
        serde_json::to_value(Scn { epoch_ns, res, iso, hot, ops }).unwrap()
    }

    fn execute(&self, scenario: &Value, cov: &mut Cov) -> RunResult {
        let sc: Scn = serde_json::from_value(scenario.clone()).expect("C05 scenario");
        let mut w = World::start(sc.epoch_ns);
        let mut tr = Trace::default();
        let viol = run(&sc, &mut w, &mut tr, cov);
        w.drain();
        cov.sim_ns += w.sim_ns;
        cov.ops += w.ops;
        RunResult::new(tr.hash(), viol)
    }

    fn shrink(&self, scenario: &Value) -> Vec<Value> {
        let mut out = shrink_ops(scenario);
        let sc: Scn = serde_json::from_value(scenario.clone()).unwrap();
        for i in 0..sc.iso.len() {
            let mut c = sc.clone();
            c.iso.remove(i);
            out.push(serde_json::to_value(c).unwrap());
        }
        for i in 0..sc.hot.len() {
            let mut c = sc.clone();
            c.hot.remove(i);
            out.push(serde_json::to_value(c).unwrap());
        }
        for (i, op) in sc.ops.iter().enumerate() {
            if let Op::Enter { n, args, att, inb } = op {
                if *n > 1 {
                    let mut c = sc.clone();
                    c.ops[i] = Op::Enter { n: 1, args: args.clone(), att: att.clone(), inb: *inb };
                    out.push(serde_json::to_value(c).unwrap());
                }
                if att.is_some() {
                    let mut c = sc.clone();
                    c.ops[i] = Op::Enter { n: *n, args: args.clone(), att: None, inb: *inb };
                    out.push(serde_json::to_value(c).unwrap());
                }
            }
        }
        out
    }
}

fn run(sc: &Scn, w: &mut World, tr: &mut Trace, cov: &mut Cov) -> Option<Violation> {
    isolation::load_rules(sc.iso.iter().map(|r| r.rule()).collect());
    hotspot::load_rules(sc.hot.iter().map(|r| r.rule()).collect());
    // per hotspot rule: value -> in-flight entries
    let mut hot_inflight: Vec<HashMap<String, u64>> = sc.hot.iter().map(|_| HashMap::new()).collect();
    let (mut n_adm, mut n_rej) = (0u64, 0u64);
    let mut seen: Vec<std::collections::HashSet<String>> = sc.hot.iter().map(|_| Default::default()).collect();
    let mut exit_then_admit = false;
    let mut last_was_exit = false;
    for (i, op) in sc.ops.iter().enumerate() {
        match op {
            Op::Adv { ms } => {
                w.advance(ms * MS);
                tr.word(*ms);
            }
            Op::Exit { k } => {
                if let Some(e) = w.exit_nth(*k, false) {
                    for (hi, h) in sc.hot.iter().enumerate() {
                        if let Some(v) = extract(h, &e.args, &e.attachments) {
                            let c = hot_inflight[hi].entry(v).or_insert(0);
                            *c = c.saturating_sub(1);
                        }
                    }
                    last_was_exit = true;
                    tr.word(0xE0 + e.id);
                }
                continue;
            }
            Op::Enter { n, args, att, inb } => {
                if *inb {
                    cov.hit("inbound_entry");
                }
                let inflight = w.open.len() as u64;
                // isolation expectation (exact)
                let iso_exceeded: Vec<&IsoSpec> = sc.iso.iter().filter(|r| inflight + *n as u64 > r.threshold as u64).collect();
                // hotspot expectation with the stated latitude for batch > 1
                let mut ambiguous = false;
                let mut hot_must_reject: Vec<&HotspotSpec> = vec![]; // inflight_v + 1 > T_v
                let mut hot_may_reject: Vec<&HotspotSpec> = vec![]; // inflight_v + n > T_v
                for (hi, h) in sc.hot.iter().enumerate() {
                    match extract(h, args, att) {
                        None => cov.hit("hotspot_param_missing"),
                        Some(v) => {
                            let c = *hot_inflight[hi].get(&v).unwrap_or(&0);
                            let t = h.threshold_for(&v);
                            let first_sighting = seen[hi].insert(v.clone());
                            if t == 0 {
                                cov.hit("hotspot_cap_zero");
                                if first_sighting {
                                    // outside the quantifier (caps 1..k): first sighting is admitted unchecked
                                    ambiguous = true;
                                    continue;
                                }
                            }
                            if h.specific.iter().any(|(k, _)| *k == v) {
                                cov.hit("hotspot_override_applied");
                            }
                            if h.index < 0 && h.key.is_empty() {
                                cov.hit("hotspot_negative_index");
                            }
                            if c + 1 > t {
                                hot_must_reject.push(h);
                            }
                            if c + *n as u64 > t {
                                hot_may_reject.push(h);
                            }
                        }
                    }
                }
                let obs = w.enter(&sc.res, *n, *inb, args.clone(), att.clone());
                tr.word(obs.admitted as u64);
                let must_admit = !ambiguous && iso_exceeded.is_empty() && hot_may_reject.is_empty();
                let must_reject = !iso_exceeded.is_empty() || (!ambiguous && !hot_must_reject.is_empty());
                if obs.admitted && must_reject {
                    let fam = if !iso_exceeded.is_empty() { "isolation" } else { "hotspot" };
                    return Some(Violation::new(
                        format!("C05/admit/{}-admitted-over-cap", fam),
                        i,
                        format!("in-flight={} n={} iso_exceeded={:?} hot={:?}", inflight, n, iso_exceeded, hot_must_reject),
                    ));
                }
                if !obs.admitted && must_admit {
                    return Some(Violation::new(
                        "C05/admit/rejected-with-free-capacity",
                        i,
                        format!("in-flight={} n={} block={:?}", inflight, n, obs.block.as_ref().map(|b| &b.text)),
                    ));
                }
                if !must_admit && !must_reject {
                    cov.hit("hotspot_batch_latitude_used");
                }
                if obs.admitted {
                    n_adm += 1;
                    if last_was_exit {
                        exit_then_admit = true;
                        cov.hit("admitted_right_after_exit");
                    }
                    for (hi, h) in sc.hot.iter().enumerate() {
                        if let Some(v) = extract(h, args, att) {
                            *hot_inflight[hi].entry(v).or_insert(0) += 1;
                        }
                    }
                } else {
                    n_rej += 1;
                    let b = obs.block.unwrap();
                    tr.str(&b.block_type);
                    tr.str(b.rule_id.as_deref().unwrap_or("-"));
                    // the hotspot slot runs after the isolation slot: its verdict is the one delivered
                    let hot_blocked = b.block_type == "HotSpotParamFlow";
                    if hot_blocked {
                        match &b.rule_id {
                            Some(id) if hot_may_reject.iter().any(|h| &h.id == id) => {}
                            _ if ambiguous => {}
                            _ => return Some(Violation::new("C05/report/hotspot-rule-not-exceeded", i, b.text)),
                        }
                    } else {
                        if iso_exceeded.is_empty() {
                            return Some(Violation::new("C05/report/unexpected-block-type", i, b.text));
                        }
                        match &b.rule_id {
                            Some(id) if iso_exceeded.iter().any(|r| &r.id == id) => {}
                            _ => return Some(Violation::new("C05/report/isolation-rule-not-exceeded", i, b.text)),
                        }
                        if b.block_type != "Isolation" {
                            return Some(Violation::new(
                                "C05/report/isolation-block-type",
                                i,
                                format!("isolation rejection reported with block type {}: {}", b.block_type, b.text),
                            ));
                        }
                    }
                }
                last_was_exit = false;
            }
        }
        // invariant: in-flight never exceeds any cap
        let node_c = stat::get_resource_node(&sc.res).map(|n| n.current_concurrency()).unwrap_or(0) as u64;
        if node_c != w.open.len() as u64 {
            return Some(Violation::new("C05/inflight/node-count", i, format!("node in-flight {} but {} entries open", node_c, w.open.len())));
        }
        cov.state(node_c * 131 + hot_inflight.iter().flat_map(|m| m.values()).sum::<u64>());
        tr.word(node_c);
    }
    cov.add("admitted", n_adm);
    cov.add("rejected", n_rej);
    cov.nontrivial = n_adm > 0 && n_rej > 0 && exit_then_admit;
    None
}
