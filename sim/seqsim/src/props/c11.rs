//! C11 — hot reload keeps the state of unchanged rules and applies changed ones at once.
//! Differential: the same traffic history is executed with and without a reload; the
//! decision / wait / breaker-state sequence on the target resource must be identical.

use crate::engine::{shrink_ops, Budget, Cov, Prop, RunResult, Violation};
use crate::fam::{self, AnySpec, FAMILIES};
use crate::refwin::{RefWin, K};
use crate::rng::{Rng, Trace};
use crate::timegen;
use crate::world::{BreakerSpec, FlowSpec, HotspotSpec, World, MS, SEC};
use sentinel_core::circuitbreaker as cb;
use serde::{Deserialize, Serialize};
use serde_json::{json, Value};
use std::collections::HashMap;

#[derive(Serialize, Deserialize, Clone, Debug)]
#[serde(tag = "t")]
pub enum Op {
    Enter { n: u32, arg: u8 },
    Exit { k: usize, err: bool },
    Adv { ms: u64 },
}

#[derive(Serialize, Deserialize, Clone, Debug)]
pub struct Scn {
    pub epoch_ns: u64,
    pub target: String,
    /// 0 flow reject (global window) 1 flow reject (private window) 2 flow throttling 3 flow warm-up
    /// 4 hotspot QPS reject 5 hotspot QPS throttling 6 hotspot concurrency 7..9 breaker strategy 0..2
    pub variant: u8,
    pub rule: AnySpec,
    /// optional second rule on the target (flow reject, hotspot concurrency and breaker variants, whose decisions and states
    /// do not depend on the order in which the rules are consulted)
    #[serde(default)]
    pub rule2: Option<AnySpec>,
    /// rules on unrelated resources before / after the reload (same family)
    pub others_before: Vec<AnySpec>,
    pub others_after: Vec<AnySpec>,
    /// the reload happens before ops[reload_at]
    pub reload_at: usize,
    /// 0 load-all, 1 load-for-resource
    pub mode: u8,
    /// clause 2: the reload changes the target's threshold to this value instead of keeping the rule
    pub new_threshold: Option<u64>,
    pub ops: Vec<Op>,
}

pub struct C11;

const VARIANTS: [&str; 10] = [
    "flow-reject-global", "flow-reject-private", "flow-throttling", "flow-warmup", "hotspot-qps-reject", "hotspot-qps-throttling", "hotspot-concurrency",
    "breaker-slow-ratio", "breaker-error-ratio", "breaker-error-count",
];

fn gen_target(rng: &mut Rng, variant: u8, res: &str) -> AnySpec {
    let id = format!("t_{:x}", rng.below(0xffff));
    match variant {
        0 => AnySpec::Flow(FlowSpec::reject(&id, res, rng.range(1, 6) as f64, *rng.pick(&[0u32, 1000, 2000, 5000]))),
        1 => AnySpec::Flow(FlowSpec::reject(&id, res, rng.range(1, 6) as f64, *rng.pick(&[1500u32, 3000, 250, 12_000]))),
        2 => AnySpec::Flow(FlowSpec { ctrl: 1, max_queue_ms: *rng.pick(&[0u32, 100, 1000]), ..FlowSpec::reject(&id, res, *rng.pick(&[1.0f64, 2.0, 5.0, 10.0]), *rng.pick(&[0u32, 1000, 500])) }),
        3 => AnySpec::Flow(FlowSpec { calc: 1, warm_period: rng.range(1, 5) as u32, warm_cold: *rng.pick(&[0u32, 2, 3]), ..FlowSpec::reject(&id, res, rng.range(10, 40) as f64, 0) }),
        4 | 5 | 6 => AnySpec::Hot(HotspotSpec {
            id,
            res: res.to_string(),
            metric: if variant == 6 { 0 } else { 1 },
            ctrl: if variant == 5 { 1 } else { 0 },
            index: 0,
            key: String::new(),
            threshold: rng.range(1, 5),
            max_queue_ms: *rng.pick(&[0u64, 100, 1000]),
            burst: rng.range(0, 2),
            duration_s: rng.range(1, 2),
            capacity: 0,
            specific: vec![],
        }),
        _ => AnySpec::Breaker(BreakerSpec {
            id,
            res: res.to_string(),
            strategy: variant - 7,
            retry_ms: *rng.pick(&[500u32, 1000, 3000]),
            min_req: rng.range(1, 3),
            interval_ms: *rng.pick(&[1000u32, 2000, 5000]),
            buckets: *rng.pick(&[1u32, 2]),
            max_rt: *rng.pick(&[10u64, 100]),
            threshold: if variant == 9 { rng.range(1, 3) as f64 } else { *rng.pick(&[0.3f64, 0.5, 1.0]) },
        }),
    }
}

fn gen_other(rng: &mut Rng, fam: usize, res: &str, j: u64) -> AnySpec {
    let id = format!("o{}_{:x}", j, rng.below(0xffff));
    match fam {
        0 => AnySpec::Flow(FlowSpec::reject(&id, res, rng.range(1, 9) as f64, *rng.pick(&[0u32, 1000, 3000]))),
        2 => AnySpec::Hot(HotspotSpec { id, res: res.to_string(), metric: rng.below(2) as u8, ctrl: 0, index: 0, key: String::new(), threshold: rng.range(1, 9), max_queue_ms: 0, burst: 0, duration_s: 1, capacity: 0, specific: vec![] }),
        _ => AnySpec::Breaker(BreakerSpec { id, res: res.to_string(), strategy: rng.below(3) as u8, retry_ms: 1000, min_req: rng.range(1, 5), interval_ms: 1000, buckets: 1, max_rt: 10, threshold: 1.0 }),
    }
}

impl Prop for C11 {
    fn id(&self) -> &'static str {
        "C11"
    }
    fn gap_ns(&self) -> u64 {
        // two executions per run, the second 3000 simulated seconds after the first
        9_000 * SEC
    }
    fn budget(&self, thorough: bool) -> Budget {
        if thorough {
            Budget { runs: 200_000, wall_s: 300 }
        } else {
            Budget { runs: 4_000, wall_s: 30 }
        }
    }
    fn rule_text(&self) -> &'static str {
        "seeded scenarios: a target resource guarded by one stateful rule (flow reject on the global / on a private window, flow throttling, flow warm-up, hotspot QPS reject / throttling / concurrency, breaker of each strategy), unrelated resources of the same family, a traffic history of 15-60 ops (enter with batch/argument, exit ok|error, boundary-biased advance) and a reload at a random position (mid-window, while Open, while Half-Open, with queued throttling slots) through load-all or load-for-resource with an equal target rule under a new id while unrelated resources are added/removed/changed. The history is executed without and with the reload; decisions, waits, block types and breaker states on the target must be identical. Clause 2 (one run in four): the reload changes the target's threshold; the very next entry must follow the new value where that is unambiguous. Non-trivial = the reload happened with accumulated state (>= 1 admission before it) and >= 1 target entry after it; distinct = distinct trace hash."
    }
    fn components(&self) -> Value {
        json!({"real": ["sentinel-core: flow / hotspot / circuit-breaker managers (load_rules, load_rules_of_resource, controller and breaker reuse), slots, checkers, EntryBuilder"],
               "stub": ["clock and sleep (virtual, hook H1)", "getrandom (seeded)", "logger (a sink that formats every record of the library and discards it)"]})
    }

    fn generate(&self, rng: &mut Rng, slot_ns: u64, _avoid: bool) -> Value {
        // aligned so that the +3000 s shift of the second execution preserves every bucket alignment
        let epoch_ns = slot_ns - slot_ns % (60 * SEC) + rng.below(60_000) * MS;
        let variant = rng.below(10) as u8;
        let tag = rng.below(0xffffff);
        let target = format!("c11_{:x}_t", tag);
        let rule = gen_target(rng, variant, &target);
        let fam = rule.fam();
        let others: Vec<String> = (0..3).map(|i| format!("c11_{:x}_o{}", tag, i)).collect();
        let mut j = 0;
        let mut gen_set = |rng: &mut Rng| -> Vec<AnySpec> {
            let mut v = vec![];
            for o in &others {
                for _ in 0..rng.range(0, 2) {
                    j += 1;
                    v.push(gen_other(rng, fam, o, j));
                }
            }
            v
        };
        let others_before = gen_set(rng);
        let others_after = if rng.chance(1, 5) { others_before.clone() } else { gen_set(rng) };
        let nops = rng.range(15, 60) as usize;
        let (l, i) = match &rule {
            AnySpec::Flow(f) => {
                let (_, iv, l) = crate::props::c01::geometry(f.interval_ms);
                (l, iv)
            }
            AnySpec::Hot(h) => (h.duration_s * 1000, h.duration_s * 1000),
            AnySpec::Breaker(b) => ((b.interval_ms / b.eff_buckets()) as u64, b.interval_ms as u64),
            _ => (500, 1000),
        };
        let retry = if let AnySpec::Breaker(b) = &rule { b.retry_ms as u64 } else { 1000 };
        let mut ops = vec![];
        let mut now_ms = epoch_ns / MS;
        let w = [rng.range(5, 10), rng.range(2, 6), rng.range(2, 6)];
        for _ in 0..nops {
            match rng.weighted(&w) {
                0 => ops.push(Op::Enter { n: if variant == 3 { 1 } else { *rng.pick(&[1u32, 1, 1, 2]) }, arg: rng.below(2) as u8 }),
                1 => ops.push(Op::Exit { k: rng.below(5) as usize, err: rng.chance(1, 2) }),
                _ => {
                    let mut ms = match rng.below(6) {
                        0 => retry,
                        1 => retry + 1,
                        2 => rng.range(0, 20),
                        _ => timegen::dt_ms(rng, now_ms, l, i),
                    };
                    ms = ms.min(120_000);
                    let left = (epoch_ns / MS + 2_400_000).saturating_sub(now_ms);
                    if ms > left {
                        ms = left;
                    }
                    now_ms += ms;
                    ops.push(Op::Adv { ms });
                }
            }
        }
        let reload_at = rng.range(1, nops as u64 - 1) as usize;
        let new_threshold = if rng.chance(1, 4) && matches!(variant, 0 | 6) { Some(rng.range(1, 8)) } else { None };
        let mut rule2 = None;
        if new_threshold.is_none() && matches!(variant, 0 | 1 | 6 | 7 | 8 | 9) && rng.chance(1, 2) {
            // same variant (for breakers: same strategy and often the same window, so that the statistics are "reusable" between the two)
            let mut r2 = gen_target(rng, variant, &target);
            r2.set_id(format!("t2_{:x}", rng.below(0xffff)));
            if let AnySpec::Hot(h) = &mut r2 {
                // a second concurrency rule on the other positional parameter: the two may share statistics but count different values
                h.index = *rng.pick(&[1i64, -1]);
            }
            if let (AnySpec::Breaker(a), AnySpec::Breaker(b)) = (&rule, &mut r2) {
                if rng.chance(2, 3) {
                    b.interval_ms = a.interval_ms;
                    b.buckets = a.buckets;
                }
            }
            if !r2.same_rule(&rule) {
                rule2 = Some(r2);
            }
        }
        serde_json::to_value(Scn { epoch_ns, target, variant, rule, rule2, others_before, others_after, reload_at, mode: rng.below(2) as u8, new_threshold, ops }).unwrap()
    }

    fn execute(&self, scenario: &Value, cov: &mut Cov) -> RunResult {
        let sc: Scn = serde_json::from_value(scenario.clone()).expect("C11 scenario");
        let mut tr = Trace::default();
        let vname = VARIANTS[sc.variant as usize % 10];
        let mode = if sc.mode == 0 { "load-all" } else { "load-for-resource" };
        // execution A: no reload (skipped for clause 2, which has its own oracle)
        let mut seq_a = vec![];
        if sc.new_threshold.is_none() {
            let mut w = World::start(sc.epoch_ns);
            let r = run(&sc, &mut w, false, 0, cov, false);
            w.drain();
            cov.sim_ns += w.sim_ns;
            cov.ops += w.ops;
            match r {
                Ok(s) => seq_a = s,
                Err(v) => return RunResult::new(0, Some(v)),
            }
        }
        // execution B: with the reload, 3000 simulated seconds later
        let shift = if sc.new_threshold.is_none() { 3_000 * SEC } else { 0 };
        let mut w = World::start(sc.epoch_ns + shift);
        let r = run(&sc, &mut w, true, shift, cov, true);
        w.drain();
        cov.sim_ns += w.sim_ns;
        cov.ops += w.ops;
        let seq_b = match r {
            Ok(s) => s,
            Err(v) => return RunResult::new(0, Some(v)),
        };
        for x in &seq_b {
            tr.word(x.1);
        }
        if sc.new_threshold.is_none() {
            if seq_a.len() != seq_b.len() {
                return RunResult { rewrite: None, trace_hash: tr.hash(), violation: Some(Violation::new("HARNESS/c11-sequence-length", 0, format!("{} vs {}", seq_a.len(), seq_b.len()))) };
            }
            for (a, b) in seq_a.iter().zip(seq_b.iter()) {
                if a.1 != b.1 {
                    return RunResult {
 rewrite: None,
                        trace_hash: tr.hash(),
                        violation: Some(Violation::new(
                            format!("C11/{}/{}/behaviour-differs-after-reload", vname, mode),
                            a.0,
                            format!(
                                "op {} ({:?}), reload before op {}: without reload observed {:#x}, with reload {:#x} (encoding: admitted<<62 | blocktype<<56 | wait_ns, or breaker state)",
                                a.0, sc.ops.get(a.0), sc.reload_at, a.1, b.1
                            ),
                        )),
                    };
                }
            }
        }
        RunResult::new(tr.hash(), None)
    }

    fn shrink(&self, scenario: &Value) -> Vec<Value> {
        let sc: Scn = serde_json::from_value(scenario.clone()).unwrap();
        let mut out = vec![];
        // drop ops while keeping the reload position meaningful
        for c in shrink_ops(scenario) {
            let mut c: Scn = serde_json::from_value(c).unwrap();
            let removed = sc.ops.len() - c.ops.len();
            // candidates that removed ops before the reload shift it
            for ra in [sc.reload_at.saturating_sub(removed), sc.reload_at.min(c.ops.len())] {
                c.reload_at = ra.min(c.ops.len());
                out.push(serde_json::to_value(&c).unwrap());
            }
        }
        if !sc.others_before.is_empty() || !sc.others_after.is_empty() {
            let mut c = sc.clone();
            c.others_before.clear();
            out.push(serde_json::to_value(&c).unwrap());
            let mut c = sc.clone();
            c.others_after.clear();
            out.push(serde_json::to_value(&c).unwrap());
        }
        out
    }
}

fn block_code(t: &str) -> u64 {
    match t {
        "Flow" => 1,
        "Isolation" => 2,
        "CircuitBreaking" => 3,
        "SystemFlow" => 4,
        "HotSpotParamFlow" => 5,
        _ => 7,
    }
}

/// returns the observation sequence on the target: (op index, encoded observation)
fn run(sc: &Scn, w: &mut World, with_reload: bool, _shift: u64, cov: &mut Cov, count: bool) -> Result<Vec<(usize, u64)>, Violation> {
    let fam = sc.rule.fam();
    let vname = VARIANTS[sc.variant as usize % 10];
    let mut initial = sc.others_before.clone();
    initial.push(sc.rule.clone());
    if let Some(r2) = &sc.rule2 {
        initial.push(r2.clone());
        if count {
            cov.hit("two_rules_on_target");
        }
    }
    fam::load_all(fam, &initial);
    let mut seq: Vec<(usize, u64)> = vec![];
    let mut passed = RefWin::default();
    let mut hot_inflight: HashMap<String, u64> = HashMap::new();
    let mut admitted_before_reload = 0u64;
    let mut entries_after_reload = 0u64;
    let mut reloaded = false;
    let mut check_next: Option<u64> = None;
    for (i, op) in sc.ops.iter().enumerate() {
        if with_reload && i == sc.reload_at {
            // equal target rule under a new id (or, clause 2, with a changed threshold)
            let mut twin = sc.rule.clone();
            twin.set_id(format!("{}_reloaded", sc.rule.id()));
            if let Some(nt) = sc.new_threshold {
                match &mut twin {
                    AnySpec::Flow(f) => f.threshold = nt as f64,
                    AnySpec::Hot(h) => h.threshold = nt,
                    _ => {}
                }
                check_next = Some(nt);
            }
            if count {
                if let AnySpec::Breaker(_) = &sc.rule {
                    for b in cb::get_breakers_of_resource(&sc.target) {
                        cov.hit(match b.current_state() {
                            cb::State::Open => "reload_while_open",
                            cb::State::HalfOpen => "reload_while_half_open",
                            cb::State::Closed => "reload_while_closed",
                        });
                    }
                }
                if admitted_before_reload > 0 {
                    cov.hit("reload_with_accumulated_state");
                }
            }
            let mut twins = vec![twin];
            if let Some(r2) = &sc.rule2 {
                let mut t2 = r2.clone();
                t2.set_id(format!("{}_reloaded", r2.id()));
                // given in the opposite order
                twins.insert(0, t2);
            }
            if sc.mode == 0 {
                let mut all = sc.others_after.clone();
                // shuffled position of the target rules: given first instead of last
                for t in twins.into_iter().rev() {
                    all.insert(0, t);
                }
                fam::load_all(fam, &all);
            } else {
                let _ = fam::load_res(fam, &sc.target, &twins);
                let mut by_res: Vec<String> = sc.others_before.iter().chain(sc.others_after.iter()).map(|r| r.res()).collect();
                by_res.sort();
                by_res.dedup();
                for r in by_res {
                    let specs: Vec<AnySpec> = sc.others_after.iter().filter(|x| x.res() == r).cloned().collect();
                    let _ = fam::load_res(fam, &r, &specs);
                }
            }
            reloaded = true;
            w.ops += 1;
        }
        match op {
            Op::Adv { ms } => w.advance(ms * MS),
            Op::Exit { k, err } => {
                if let Some(e) = w.exit_nth(*k, *err) {
                    if let Some(a) = &e.args {
                        let c = hot_inflight.entry(a[0].clone()).or_insert(0);
                        *c = c.saturating_sub(1);
                    }
                }
            }
            Op::Enter { n, arg } => {
                let argv = ["x", "y"][*arg as usize % 2].to_string();
                let t = w.now_ms();
                // second positional argument: the other value (a second hotspot rule may look at it)
                let other = ["y", "x"][*arg as usize % 2].to_string();
                let o = w.enter(&sc.target, *n, false, Some(vec![argv.clone(), other]), None);
                let code = (o.admitted as u64) << 62 | o.block.as_ref().map(|b| block_code(&b.block_type)).unwrap_or(0) << 56 | ((o.t1_ns - o.t0_ns) & 0xff_ffff_ffff_ffff);
                seq.push((i, code));
                if reloaded {
                    entries_after_reload += 1;
                } else if o.admitted {
                    admitted_before_reload += 1;
                }
                // clause 2: the very next entry follows the new threshold
                if let Some(nt) = check_next.take() {
                    let expect = match sc.variant {
                        0 => {
                            let (_, iv, l) = match &sc.rule {
                                AnySpec::Flow(f) => crate::props::c01::geometry(f.interval_ms),
                                _ => unreachable!(),
                            };
                            passed.sum(t, iv, l, K::Pass) + *n as u64 <= nt
                        }
                        _ => *hot_inflight.get(&argv).unwrap_or(&0) + 1 <= nt,
                    };
                    if count {
                        cov.hit("changed_threshold_checked");
                    }
                    if o.admitted != expect {
                        return Err(Violation::new(
                            format!("C11/{}/changed-rule-not-applied-at-once", vname),
                            i,
                            format!("threshold changed to {} right before this entry (n={}): admitted={} expected={}", nt, n, o.admitted, expect),
                        ));
                    }
                }
                if o.admitted {
                    passed.add(t, K::Pass, *n as u64);
                    *hot_inflight.entry(argv).or_insert(0) += 1;
                }
            }
        }
        if fam == 1 {
            // states keyed by rule (the live order may differ between the two executions)
            let mut states: Vec<(u64, u64)> = vec![];
            for b in cb::get_breakers_of_resource(&sc.target) {
                let s = match b.current_state() {
                    cb::State::Closed => 0,
                    cb::State::Open => 1,
                    cb::State::HalfOpen => 2,
                };
                let k = if b.bound_rule().id.starts_with(sc.rule.id()) { 0 } else { 1 };
                states.push((k, s));
            }
            states.sort();
            for (k, s) in states {
                seq.push((i, 0xB000 + s + 16 * k));
            }
        }
    }
    if count {
        cov.hit(&format!("variant_{}", vname));
        cov.hit(&format!("family_{}", FAMILIES[fam]));
        cov.state(seq.iter().fold(0u64, |a, x| a.wrapping_mul(31).wrapping_add(x.1)) & 0xffff);
        cov.nontrivial = admitted_before_reload > 0 && entries_after_reload > 0;
    }
    Ok(seq)
}
