//! C01 — reject-type flow control admits a request iff it fits every rule's window.

use crate::engine::{shrink_ops, Budget, Cov, Prop, RunResult, Violation};
use crate::refwin::{RefWin, K};
use crate::rng::{Rng, Trace};
use crate::timegen;
use crate::world::{FlowSpec, World, MS, SEC};
use sentinel_core::flow;
use serde::{Deserialize, Serialize};
use serde_json::{json, Value};

#[derive(Serialize, Deserialize, Clone, Debug)]
#[serde(tag = "t")]
pub enum Op {
    Enter { r: usize, n: u32 },
    Exit { k: usize },
    Adv { ms: u64 },
}

#[derive(Serialize, Deserialize, Clone, Debug)]
pub struct Scn {
    pub epoch_ns: u64,
    pub res: Vec<String>,
    pub rules: Vec<FlowSpec>,
    pub ops: Vec<Op>,
}

/// Window geometry a flow rule gets under the default configuration (10 s ring of 20 x 500 ms,
/// default metric 2 x 500 ms) — configuration semantics restated from the documentation of
/// `stat_interval_ms`: (reuses_global, interval, bucket_len).
pub fn geometry(interval_ms: u32) -> (bool, u64, u64) {
    let (tot_i, tot_l, def_i) = (10_000u64, 500u64, 1_000u64);
    let iv = interval_ms as u64;
    if iv == 0 || iv == def_i {
        return (true, def_i, tot_l);
    }
    let sc = if iv > tot_l && iv < tot_i && iv % tot_l == 0 { iv / tot_l } else { 1 };
    let bl = iv / sc;
    let reusable = iv % sc == 0 && tot_i % iv == 0 && bl % tot_l == 0;
    if reusable {
        (true, iv, tot_l)
    } else {
        (false, iv, bl)
    }
}

pub struct C01;

const THRESHOLDS: [f64; 10] = [0.0, 0.5, 1.0, 2.0, 2.5, 3.0, 5.0, 7.0, 20.0, 50.0];
const INTERVALS: [u32; 36] = [
    0, 1000, 500, 1000, 1500, 2000, 2500, 3000, 3500, 4000, 4500, 5000, 5500, 6000, 6500, 7000, 7500, 8000, 8500, 9000,
    9500, 10000, 250, 300, 750, 12000, 20000, 1300, 1501, 2750, 999, 7777, 501, 0, 1000, 2000,
];

impl Prop for C01 {
    fn id(&self) -> &'static str {
        "C01"
    }
    fn gap_ns(&self) -> u64 {
        // the generator bounds the simulated span of a run by 100 min
        7_200 * SEC
    }
    fn budget(&self, thorough: bool) -> Budget {
        if thorough {
            Budget { runs: 400_000, wall_s: 240 }
        } else {
            Budget { runs: 6_000, wall_s: 30 }
        }
    }
    fn rule_text(&self) -> &'static str {
        "seeded scenarios: 1-2 resources, 1-3 direct/reject flow rules each (thresholds 0..50 incl. fractional; stat intervals default / reusing the 10 s ring with 1..20 buckets / forcing a private window), 20-80 ops over Enter(batch 0..k)/Exit/Advance(boundary-biased dt), seeded hash order of the rule set. Non-trivial = run contains both an admission and a rejection; distinct = distinct trace hash (sequence of decisions, blocking rule, clock)."
    }
    fn components(&self) -> Value {
        json!({"real": ["sentinel-core: EntryBuilder, slot chain, flow rule manager/slot/RejectChecker/StandaloneStatSlot, stat (LeapArray, SlidingWindowMetric)"],
               "stub": ["clock (virtual, hook H1)", "getrandom (seeded)", "logger (a sink that formats every record of the library and discards it)", "background threads (never started)"]})
    }

    fn generate(&self, rng: &mut Rng, slot_ns: u64, _avoid: bool) -> Value {
        let epoch_ns = slot_ns + timegen::phase_ns(rng, 20_000);
        let tag = rng.below(0xffffff);
        let nres = if rng.chance(1, 3) { 2 } else { 1 };
        let res: Vec<String> = (0..nres).map(|i| format!("c01_{:x}_{}", tag, i)).collect();
        let mut rules = vec![];
        // swarm: per run, restrict the interval family
        let fam = rng.below(4);
        for (ri, r) in res.iter().enumerate() {
            let k = rng.range(1, 3);
            for j in 0..k {
                let iv = match fam {
                    0 => *rng.pick(&[0u32, 1000]),
                    1 => *rng.pick(&INTERVALS[2..22]),
                    2 => *rng.pick(&INTERVALS[22..33]),
                    _ => *rng.pick(&INTERVALS),
                };
                let th = if rng.chance(1, 8) { rng.range(0, 30) as f64 } else { *rng.pick(&THRESHOLDS) };
                let spec = FlowSpec::reject(&format!("f{}_{}_{:x}", ri, j, rng.below(0xffff)), r, th, iv);
                // two equal rules under different ids are one rule semantically (and the manager's
                // set may keep one or both): never generated here, C10 covers them
                if rules.iter().any(|x: &FlowSpec| x.res == spec.res && x.threshold == spec.threshold && x.interval_ms == spec.interval_ms) {
                    continue;
                }
                rules.push(spec);
            }
        }
        let nops = rng.range(20, 80);
        let maxbatch = *rng.pick(&[1u64, 1, 2, 3, 5, 8]);
        let w_enter = rng.range(4, 12);
        let w_exit = rng.range(0, 3);
        let w_adv = rng.range(2, 8);
        let mut ops = vec![];
        let mut now_ms = epoch_ns / MS;
        for _ in 0..nops {
            match rng.weighted(&[w_enter, w_exit, w_adv]) {
                0 => {
                    let n = if rng.chance(1, 20) { 0 } else { rng.range(1, maxbatch) as u32 };
                    ops.push(Op::Enter { r: rng.below(nres) as usize, n });
                }
                1 => ops.push(Op::Exit { k: rng.below(8) as usize }),
                _ => {
                    let rule = rng.pick(&rules);
                    let (_, i, l) = geometry(rule.interval_ms);
                    let mut ms = timegen::dt_ms(rng, now_ms, l, i);
                    let left = (epoch_ns / MS + 6_000_000).saturating_sub(now_ms);
                    if ms > left {
                        ms = left;
                    }
                    now_ms += ms;
                    ops.push(Op::Adv { ms });
                }
            }
        }
        serde_json::to_value(Scn { epoch_ns, res, rules, ops }).unwrap()
    }

    fn execute(&self, scenario: &Value, cov: &mut Cov) -> RunResult {
        let sc: Scn = serde_json::from_value(scenario.clone()).expect("C01 scenario");
        let mut w = World::start(sc.epoch_ns);
        let mut tr = Trace::default();
        let viol = run(&sc, &mut w, &mut tr, cov);
        w.drain();
        cov.sim_ns += w.sim_ns;
        cov.ops += w.ops;
        RunResult::new(tr.hash(), viol)
    }

    fn shrink(&self, scenario: &Value) -> Vec<Value> {
        let mut out = shrink_ops(scenario);
        let sc: Scn = serde_json::from_value(scenario.clone()).unwrap();
        // fewer rules
        if sc.rules.len() > 1 {
            for i in 0..sc.rules.len() {
                let mut c = sc.clone();
                c.rules.remove(i);
                out.push(serde_json::to_value(c).unwrap());
            }
        }
        // simpler ops
        for (i, op) in sc.ops.iter().enumerate() {
            match op {
                Op::Enter { r, n } if *n > 1 => {
                    let mut c = sc.clone();
                    c.ops[i] = Op::Enter { r: *r, n: 1 };
                    out.push(serde_json::to_value(c).unwrap());
                }
                Op::Adv { ms } if *ms > 1000 => {
                    let mut c = sc.clone();
                    c.ops[i] = Op::Adv { ms: ms % 1000 + 1000 };
                    out.push(serde_json::to_value(c).unwrap());
                }
                _ => {}
            }
        }
        out
    }
}

fn run(sc: &Scn, w: &mut World, tr: &mut Trace, cov: &mut Cov) -> Option<Violation> {
    let rules: Vec<_> = sc.rules.iter().map(|r| r.rule()).collect();
    flow::load_rules(rules);
    // configuration semantics cross-check
    for r in &sc.rules {
        let (reuse, _, _) = geometry(r.interval_ms);
        let tcs = flow::get_traffic_controller_list_for(&r.res);
        match tcs.iter().find(|t| t.rule().id == r.id) {
            None => {
                return Some(Violation::new("C01/rule-not-loaded", 0, format!("valid rule {:?} has no controller", r)));
            }
            Some(tc) => {
                if tc.stat().reuse_global() != reuse {
                    return Some(Violation::new(
                        "C01/geometry/reuse-mismatch",
                        0,
                        format!("rule interval {} reuse_global={} but documented geometry says {}", r.interval_ms, tc.stat().reuse_global(), reuse),
                    ));
                }
                cov.hit(if reuse { "rule_on_global_window" } else { "rule_on_private_window" });
            }
        }
    }
    // per resource: admitted tokens; rules all loaded at t0 so private windows see the same tokens
    let mut admitted: Vec<RefWin> = sc.res.iter().map(|_| RefWin::default()).collect();
    let mut n_adm = 0u64;
    let mut n_rej = 0u64;
    let mut last_enter_ms = 0u64;
    for (i, op) in sc.ops.iter().enumerate() {
        match op {
            Op::Adv { ms } => {
                w.advance(ms * MS);
                if *ms >= 10_000 {
                    cov.hit("gap_ring_fully_expired");
                }
                tr.word(*ms);
            }
            Op::Exit { k } => {
                // exits must change nothing for flow control
                w.exit_nth(*k, false);
                tr.word(0xE);
            }
            Op::Enter { r, n } => {
                let r = *r % sc.res.len();
                let res = &sc.res[r];
                let t = w.now_ms();
                let mut exceeded: Vec<&FlowSpec> = vec![];
                let mut st: u64 = 0;
                for rule in sc.rules.iter().filter(|x| &x.res == res) {
                    let (_, iv, l) = geometry(rule.interval_ms);
                    let s = admitted[r].sum(t, iv, l, K::Pass);
                    st = st.wrapping_mul(31).wrapping_add(s);
                    if s as f64 + *n as f64 > rule.threshold {
                        exceeded.push(rule);
                    }
                    if t % l == 0 {
                        cov.hit("arrival_on_bucket_boundary");
                    }
                    if t % iv == 0 {
                        cov.hit("arrival_on_interval_boundary");
                    }
                }
                cov.state(st);
                if last_enter_ms == t {
                    cov.hit("burst_same_instant");
                }
                last_enter_ms = t;
                if *n == 0 {
                    cov.hit("batch_zero");
                }
                let obs = w.enter(res, *n, false, None, None);
                tr.word(obs.admitted as u64);
                if obs.t1_ns != obs.t0_ns {
                    return Some(Violation::new("C01/clock-moved", i, "reject-type rule made the caller wait"));
                }
                let expect = exceeded.is_empty();
                if obs.admitted != expect {
                    let sig = if obs.admitted { "C01/admit/admitted-but-exceeds" } else { "C01/admit/blocked-but-fits" };
                    return Some(Violation::new(
                        sig,
                        i,
                        format!(
                            "t={} res={} n={} observed admitted={} expected={} exceeded={:?} block={:?}",
                            t,
                            res,
                            n,
                            obs.admitted,
                            expect,
                            exceeded.iter().map(|x| (&x.id, x.threshold, x.interval_ms)).collect::<Vec<_>>(),
                            obs.block.as_ref().map(|b| &b.text)
                        ),
                    ));
                }
                if obs.admitted {
                    n_adm += 1;
                    admitted[r].add(t, K::Pass, *n as u64);
                } else {
                    n_rej += 1;
                    let b = obs.block.unwrap();
                    tr.str(b.rule_id.as_deref().unwrap_or("-"));
                    if b.block_type != "Flow" {
                        return Some(Violation::new("C01/report/wrong-block-type", i, b.text));
                    }
                    match &b.rule_id {
                        Some(id) if exceeded.iter().any(|x| &x.id == id) => {}
                        _ => {
                            return Some(Violation::new("C01/report/rule-not-exceeded", i, format!("exceeded={:?} reported: {}", exceeded.iter().map(|x| &x.id).collect::<Vec<_>>(), b.text)));
                        }
                    }
                }
            }
        }
        tr.word(w.now_ms());
    }
    // model-free consequence: admitted tokens in any bucket-aligned window never exceed the threshold
    for (r, res) in sc.res.iter().enumerate() {
        for rule in sc.rules.iter().filter(|x| &x.res == res) {
            let (_, iv, l) = geometry(rule.interval_ms);
            for (te, _, _) in &admitted[r].ev {
                let s = admitted[r].sum(*te, iv, l, K::Pass);
                // a batch-0 request can pass with sum == threshold exactly; tokens never exceed it
                if s as f64 > rule.threshold {
                    return Some(Violation::new(
                        "C01/window/over-threshold",
                        sc.ops.len(),
                        format!("rule {:?}: window ending in bucket of t={} holds {} admitted tokens", rule, te, s),
                    ));
                }
            }
        }
    }
    cov.add("admitted", n_adm);
    cov.add("rejected", n_rej);
    cov.nontrivial = n_adm > 0 && n_rej > 0;
    None
}
