//! C19 — metric log: written items can be searched back; a torn tail loses one line.
//! No-crash retrieval oracle on the real directory, then fault enumeration: the operation log of
//! the run (fsseam) is cut at EVERY crash point (before every create/unlink/write and after every
//! written byte); each prefix is materialised as a directory and searched.

use crate::engine::{shrink_ops, Budget, Cov, Prop, RunResult, Violation};
use crate::fsseam::{self, FsOp};
use crate::rng::{Rng, Trace};
use crate::seams::vc;
use crate::world::{World, MS, SEC};
use sentinel_core::base::MetricItem;
use sentinel_core::config::ConfigEntity;
use sentinel_core::log::metric::{DefaultMetricLogWriter, DefaultMetricSearcher, MetricLogWriter, MetricSearcher};
use serde::{Deserialize, Serialize};
use serde_json::{json, Value};
use std::collections::{BTreeMap, BTreeSet};

#[derive(Serialize, Deserialize, Clone, Debug)]
pub struct Item {
    pub r: usize,
    pub c: [u64; 5], // pass, block, complete, error, avg rt
    pub conc: u32,
}

#[derive(Serialize, Deserialize, Clone, Debug)]
pub struct Sec {
    /// seconds since the previously written second (>= 1; the first is relative to the creation second)
    pub gap: u64,
    pub items: Vec<Item>,
}

#[derive(Serialize, Deserialize, Clone, Debug)]
pub struct Scn {
    pub epoch_ns: u64,
    pub max_size: u64,
    pub max_files: usize,
    pub res: Vec<String>,
    /// enumerate every crash point (true) or only check retrieval without crash
    pub crash: bool,
    /// short writes and EINTR injected into the writer's write(2) calls (rate per 1000 calls; 0 = none)
    #[serde(default)]
    pub io_fault_rate: usize,
    pub ops: Vec<Sec>,
    /// indices of seconds after which a long-lived searcher (created at the first of them) runs a
    /// query while the writer goes on: its position cache then survives roll-overs and retention
    #[serde(default)]
    pub probes: Vec<usize>,
    /// restart after crash: at every `restart_every`-th crash state a new writer is created on the
    /// crashed directory and writes two more seconds before the directory is searched again (0 = never)
    #[serde(default)]
    pub restart_every: u32,
    /// the configured metric directory is given without a trailing path separator
    #[serde(default)]
    pub dir_without_slash: bool,
}

pub struct C19;

const APP: &str = "c19app";
const BASE: &str = "c19app-metrics.log";

fn scratch_root() -> String {
    let shm = std::path::Path::new("/dev/shm");
    let root = if shm.is_dir() { format!("/dev/shm/verif-c19-{}", std::process::id()) } else { format!("{}/c19-{}", crate::engine::scratch_dir().display(), std::process::id()) };
    root
}

impl Prop for C19 {
    fn id(&self) -> &'static str {
        "C19"
    }
    fn gap_ns(&self) -> u64 {
        // day changes: slots of 3 days
        3 * 86_400 * SEC
    }
    fn level(&self) -> &'static str {
        "fault_enumeration"
    }
    fn watchdog_s(&self) -> u64 {
        240
    }
    fn cpu_limit_s(&self) -> u64 {
        150
    }
    fn budget(&self, thorough: bool) -> Budget {
        if thorough {
            Budget { runs: 6_000, wall_s: 420 }
        } else {
            Budget { runs: 160, wall_s: 40 }
        }
    }
    fn extra_warm_up(&self) {
        // metric-log statics (file-name regex, time formatting) are initialised on the worker's main thread
        let root = format!("{}-warm", scratch_root());
        let live = format!("{}/live/", root);
        let _ = std::fs::remove_dir_all(&root);
        std::fs::create_dir_all(&live).expect("mkdir");
        let mut cfg = ConfigEntity::new();
        cfg.config.app.app_name = APP.into();
        cfg.config.log.metric.dir = live.clone();
        cfg.config.log.metric.use_pid = false;
        sentinel_core::config::reset_global_config(cfg);
        if let Ok(mut wtr) = DefaultMetricLogWriter::new(1000, 2) {
            let ts = vc::now_ms() + 2000;
            let mut items = vec![MetricItem::from_string(&format!("{}|x|warm|1|0|1|0|1|0|0|0", ts)).unwrap()];
            let _ = wtr.write(ts, &mut items);
        }
        if let Ok(s) = DefaultMetricSearcher::new(live.clone(), BASE.to_string()) {
            let _ = s.find_by_time_and_resource(0, u64::MAX / 2, "");
            let _ = s.find_from_time_with_max_lines(0, 10);
        }
        let _ = std::fs::remove_dir_all(&root);
        sentinel_core::config::reset_global_config(ConfigEntity::new());
    }
    fn rule_text(&self) -> &'static str {
        "seeded write histories through the real DefaultMetricLogWriter (1-8 seconds, one history in eight 10-14 seconds with a 1..100-byte limit so that one date gets more than nine files, x 1-3 resources - one history in three with multi-byte resource names - with gaps, day changes across a virtual midnight, single-file limits of 150..2000 bytes forcing size roll-over, max file count 1..4 forcing retention; the metric directory configured with or without a trailing separator; one history in three with short writes and EINTR injected into the writer's write(2) calls at a rate of 5-50 %). (1) No crash: for every window of written seconds x every resource (and all resources), and from every second with line limits {1,2,3,1000}, both search calls of a fresh and of a reused DefaultMetricSearcher are compared with the lines of the files that still exist. (2) Crash enumeration: the libc-level operation log of the run (every create, unlink and written byte, in program order) is cut at EVERY crash point; each prefix is materialised as a directory and searched: no panic, every item whose line and whose second's index entry are complete is returned in order, every returned item is a completely written line except at most one parsed from the single torn last line. evaluations = histories; the counters report crash states. Non-trivial = history with a roll-over and >= 200 crash states (or, without crash enumeration, >= 2 files); distinct = distinct trace hash."
    }
    fn components(&self) -> Value {
        json!({"real": ["sentinel-core (feature metric_log): DefaultMetricLogWriter (index + log files, roll-over by size and date, retention), DefaultMetricSearcher, DefaultMetricLogReader, MetricItem parsing", "file system: real files under /dev/shm (or /verif/scratch)"],
               "stub": ["clock (virtual, hook H1: creation time and dates)", "libc write/open/unlink interposers (fsseam): operation log, injected short writes / EINTR, crash = directory synthesised from a prefix of the recorded operation log (validated against real process deaths by ./check validate-c19)", "metric aggregator task (never started; items are generated)"]})
    }

    fn generate(&self, rng: &mut Rng, slot_ns: u64, _avoid: bool) -> Value {
        // creation time: sometimes shortly before midnight so that the history crosses a date change
        let day0 = slot_ns / SEC - (slot_ns / SEC) % 86_400 + 86_400;
        let t0 = if rng.chance(1, 3) { day0 + 86_400 - rng.range(1, 6) } else { day0 + rng.range(0, 80_000) };
        let epoch_ns = t0 * SEC + rng.below(1000) * MS;
        let nres = rng.range(1, 3) as usize;
        // one scenario in three: resource names with multi-byte characters (a crash can tear a line inside one)
        let wide = rng.chance(1, 3);
        let res: Vec<String> = (0..nres).map(|i| if wide { format!("\u{8d44}\u{6e90}-\u{e9}{}", i) } else { format!("res{}", i) }).collect();
        // one scenario in eight: a long history with a tiny size limit, so that one date sees more than nine files
        let many = rng.chance(1, 8);
        let nsec = if many { rng.range(10, 14) } else { rng.range(1, 8) };
        let ops: Vec<Sec> = (0..nsec)
            .map(|_| Sec {
                gap: *rng.pick(&[1u64, 1, 1, 2, 5, 60]),
                items: {
                    let mut rs: Vec<usize> = (0..nres).collect();
                    rng.shuffle(&mut rs);
                    rs.truncate(rng.range(1, nres as u64) as usize);
                    rs.into_iter().map(|r| Item { r, c: [rng.range(0, 99), rng.range(0, 9), rng.range(0, 99), rng.range(0, 3), rng.range(0, 500)], conc: rng.range(0, 9) as u32 }).collect()
                },
            })
            .collect();
        let probes: Vec<usize> = if rng.chance(1, 2) { (0..rng.range(1, 2)).map(|_| rng.below(nsec) as usize).collect() } else { vec![] };
        let restart_every = if rng.chance(1, 2) { *rng.pick(&[7u32, 23, 61]) } else { 0 };
        let max_size = if many { *rng.pick(&[1u64, 100]) } else { *rng.pick(&[150u64, 200, 400, 1000, 2000, 1 << 20]) };
        serde_json::to_value(Scn { epoch_ns, max_size, max_files: rng.range(1, 4) as usize, res, crash: !rng.chance(1, 4), io_fault_rate: if rng.chance(1, 3) { *rng.pick(&[50usize, 200, 500]) } else { 0 }, ops, probes, restart_every, dir_without_slash: rng.chance(1, 3) }).unwrap()
    }

    fn execute(&self, scenario: &Value, cov: &mut Cov) -> RunResult {
        let sc: Scn = serde_json::from_value(scenario.clone()).expect("C19 scenario");
        let mut w = World::start(sc.epoch_ns);
        let mut tr = Trace::default();
        let root = scratch_root();
        let viol = run(&sc, &root, &mut w, &mut tr, cov);
        let _ = fsseam::stop();
        let _ = std::fs::remove_dir_all(&root);
        sentinel_core::config::reset_global_config(ConfigEntity::new());
        cov.ops += w.ops;
        RunResult::new(tr.hash(), viol)
    }

    fn shrink(&self, scenario: &Value) -> Vec<Value> {
        let mut out = shrink_ops(scenario);
        let sc: Scn = serde_json::from_value(scenario.clone()).unwrap();
        for (i, s) in sc.ops.iter().enumerate() {
            if s.items.len() > 1 {
                for j in 0..s.items.len() {
                    let mut c = sc.clone();
                    c.ops[i].items.remove(j);
                    out.push(serde_json::to_value(c).unwrap());
                }
            }
            if s.gap > 1 {
                let mut c = sc.clone();
                c.ops[i].gap = 1;
                out.push(serde_json::to_value(c).unwrap());
            }
        }
        if sc.io_fault_rate > 0 {
            let mut c = sc.clone();
            c.io_fault_rate = 0;
            out.push(serde_json::to_value(c).unwrap());
        }
        if sc.max_files < 4 {
            let mut c = sc.clone();
            c.max_files = 4;
            out.push(serde_json::to_value(c).unwrap());
        }
        out
    }
}

// ---- reference: what is on disk ---------------------------------------------------------------

#[derive(Clone, Debug)]
struct Line {
    text: String,
    sec: u64,
    res: String,
}

struct Disk {
    /// complete lines of the surviving log files, in file order
    lines: Vec<Line>,
    /// trailing partial line (at most one file can have one)
    torn: Option<String>,
    /// seconds having a complete 16-byte index entry in a surviving index file
    indexed: BTreeSet<u64>,
    nfiles: usize,
}

fn file_order(a: &str, b: &str) -> std::cmp::Ordering {
    // documented order: by date, then by roll-over number
    let key = |n: &str| -> (String, u32) {
        let rest = &n[BASE.len() + 1..];
        let mut it = rest.splitn(2, '.');
        let date = it.next().unwrap_or("").to_string();
        let num = it.next().and_then(|x| x.parse::<u32>().ok()).unwrap_or(0);
        (date, num)
    };
    key(a).cmp(&key(b))
}

fn read_disk(files: &BTreeMap<String, Vec<u8>>) -> Disk {
    let mut names: Vec<&String> = files.keys().filter(|n| n.starts_with(BASE) && !n.ends_with(".idx")).collect();
    names.sort_by(|a, b| file_order(a, b));
    let mut lines = vec![];
    let mut torn = None;
    for n in &names {
        let text = String::from_utf8_lossy(&files[*n]).to_string();
        let mut rest = text.as_str();
        while let Some(p) = rest.find('\n') {
            let l = &rest[..p];
            let parts: Vec<&str> = l.split('|').collect();
            let sec = parts.first().and_then(|x| x.parse::<u64>().ok()).unwrap_or(0) / 1000;
            lines.push(Line { text: l.to_string(), sec, res: parts.get(2).unwrap_or(&"").to_string() });
            rest = &rest[p + 1..];
        }
        if !rest.is_empty() {
            torn = Some(rest.to_string());
        }
    }
    let mut indexed = BTreeSet::new();
    for (n, c) in files {
        if n.ends_with(".idx") {
            for e in c.chunks(16) {
                if e.len() == 16 {
                    indexed.insert(u64::from_be_bytes(e[..8].try_into().unwrap()));
                }
            }
        }
    }
    Disk { lines, torn, indexed, nfiles: names.len() }
}

fn is_subsequence(needle: &[String], hay: &[String]) -> bool {
    let mut it = hay.iter();
    needle.iter().all(|n| it.any(|h| h == n))
}

fn item_line(i: &MetricItem) -> String {
    i.to_string()
}

/// checks one search result against the disk reference. `exact_prefix` = Some(max) for the
/// line-limited call on an uncrashed directory.
fn check_range(d: &Disk, creation_sec: u64, b: u64, e: u64, res: &str, got: &[MetricItem], ctx: &str, crashed: bool) -> Option<(String, String)> {
    let in_q = |l: &Line| l.sec >= b && l.sec <= e && (res.is_empty() || l.res == res);
    let allowed: Vec<String> = d.lines.iter().filter(|l| in_q(l)).map(|l| l.text.clone()).collect();
    let required: Vec<String> = d.lines.iter().filter(|l| in_q(l) && l.sec != creation_sec && d.indexed.contains(&l.sec)).map(|l| l.text.clone()).collect();
    let got_lines: Vec<String> = got.iter().map(item_line).collect();
    if !is_subsequence(&required, &got_lines) {
        let missing = required.iter().find(|r| !got_lines.contains(r)).cloned().unwrap_or_else(|| "(order)".into());
        return Some((
            format!("C19/{}/range-search-misses-written-item", if crashed { "crash" } else { "nocrash" }),
            format!("{}: find_by_time_and_resource([{}..{}] s, {:?}) returned {} items, required {} (first missing or out of order: {})", ctx, b, e, res, got_lines.len(), required.len(), missing),
        ));
    }
    let mut unknown = 0;
    let known: Vec<String> = got_lines.iter().filter(|g| allowed.contains(g)).cloned().collect();
    for g in &got_lines {
        if !allowed.contains(g) {
            unknown += 1;
        }
    }
    if unknown > if d.torn.is_some() { 1 } else { 0 } {
        let bad = got_lines.iter().find(|g| !allowed.contains(g)).cloned().unwrap_or_default();
        return Some((
            format!("C19/{}/range-search-returns-item-not-in-range-or-never-written", if crashed { "crash" } else { "nocrash" }),
            format!("{}: find_by_time_and_resource([{}..{}] s, {:?}) returned `{}` which is not a completely written line of that range/resource", ctx, b, e, res, bad),
        ));
    }
    if !is_subsequence(&known, &allowed) {
        return Some((format!("C19/{}/range-search-out-of-write-order", if crashed { "crash" } else { "nocrash" }), format!("{}: result {:?} is not in write order", ctx, got_lines)));
    }
    None
}

fn check_from(d: &Disk, creation_sec: u64, b: u64, max: usize, got: &[MetricItem], ctx: &str, crashed: bool) -> Option<(String, String)> {
    let tag = if crashed { "crash" } else { "nocrash" };
    let got_lines: Vec<String> = got.iter().map(item_line).collect();
    // lines from the first indexed second >= b, in file order
    let first = d.lines.iter().position(|l| l.sec >= b && l.sec != creation_sec && d.indexed.contains(&l.sec));
    let from: Vec<&Line> = match first {
        Some(p) => d.lines[p..].iter().collect(),
        None => vec![],
    };
    let required: Vec<&Line> = from.iter().filter(|l| d.indexed.contains(&l.sec)).cloned().collect();
    let all_text: Vec<String> = d.lines.iter().map(|l| l.text.clone()).collect();
    let unknown = got_lines.iter().filter(|g| !all_text.contains(g)).count();
    if unknown > if d.torn.is_some() { 1 } else { 0 } {
        return Some((format!("C19/{}/limited-search-returns-item-never-written", tag), format!("{}: {:?}", ctx, got_lines)));
    }
    let known: Vec<String> = got_lines.iter().filter(|g| all_text.contains(g)).cloned().collect();
    if !is_subsequence(&known, &all_text) {
        return Some((format!("C19/{}/limited-search-out-of-write-order", tag), format!("{}: {:?}", ctx, got_lines)));
    }
    // at least min(max, available required) items, those required ones first in order
    let need = required.len().min(max);
    let req_prefix: Vec<String> = required.iter().take(need).map(|l| l.text.clone()).collect();
    if !is_subsequence(&req_prefix, &got_lines) {
        return Some((
            format!("C19/{}/limited-search-misses-written-item", tag),
            format!("{}: find_from_time_with_max_lines({} s, {}) returned {} items; the first {} required items are not all there (required from that second: {})", ctx, b, max, got_lines.len(), need, required.len()),
        ));
    }
    if !crashed {
        // cut only at a second boundary, and not before the limit is reached
        let from_text: Vec<String> = from.iter().map(|l| l.text.clone()).collect();
        if got_lines.len() > from_text.len() || got_lines[..] != from_text[..got_lines.len()] {
            return Some((format!("C19/{}/limited-search-not-a-prefix-from-begin", tag), format!("{}: find_from_time_with_max_lines({} s, {}) = {:?} but the items from that second are {:?}", ctx, b, max, got_lines, from_text)));
        }
        if got_lines.len() < from.len() {
            let last = from[got_lines.len().saturating_sub(1)].sec;
            let next = from[got_lines.len()].sec;
            if got_lines.len() < max || (last == next && !got_lines.is_empty()) {
                return Some((format!("C19/{}/limited-search-cut-inside-a-second-or-too-early", tag), format!("{}: limit {} returned {} of {} items (last second {}, next {})", ctx, max, got_lines.len(), from.len(), last, next)));
            }
        }
    }
    None
}

fn searches(dir: &str, d: &Disk, creation_sec: u64, secs: &[u64], res: &[String], full: bool, ctx: &str, crashed: bool, long_lived: Option<&DefaultMetricSearcher>, cov: &mut Cov) -> Option<(String, String)> {
    let searcher = match DefaultMetricSearcher::new(dir.to_string(), BASE.to_string()) {
        Ok(s) => s,
        Err(e) => return Some(("C19/searcher-construction-error".into(), e.to_string())),
    };
    let rounds = if !full { 1 } else if long_lived.is_some() { 3 } else { 2 };
    let tag = if crashed { "crash" } else { "nocrash" };
    if secs.is_empty() {
        return None;
    }
    let lo = *secs.first().unwrap();
    let hi = *secs.last().unwrap();
    // range queries
    let mut windows: Vec<(u64, u64)> = vec![(lo, hi)];
    if full {
        for (i, b) in secs.iter().enumerate() {
            for e in secs[i..].iter() {
                windows.push((*b, *e));
            }
        }
        windows.push((lo.saturating_sub(3), hi + 3));
    } else {
        windows.push((secs[secs.len() / 2], hi));
    }
    let mut resources: Vec<String> = vec![String::new()];
    if full {
        resources.extend(res.iter().cloned());
    } else {
        resources.push(res[0].clone());
    }
    for round in 0..rounds {
        // round 1 re-uses the same searcher (position cache); round 2 uses the searcher that was created and
        // used while the writer was still going (its cache may name files that retention has removed since)
        let suffix = ["", "/reused-searcher", "/long-lived-searcher"][round];
        for (b, e) in &windows {
            for r in &resources {
                let fresh;
                let s = if round == 0 && full {
                    fresh = DefaultMetricSearcher::new(dir.to_string(), BASE.to_string()).unwrap();
                    &fresh
                } else if round == 2 {
                    long_lived.unwrap()
                } else {
                    &searcher
                };
                cov.hit("searches");
                match s.find_by_time_and_resource(b * 1000 + 7, e * 1000 + 999, r) {
                    Ok(items) => {
                        if let Some((sig, det)) = check_range(d, creation_sec, *b, *e, r, &items, ctx, crashed) {
                            return Some((format!("{}{}", sig, suffix), det));
                        }
                    }
                    Err(err) => {
                        if d.nfiles > 0 {
                            return Some((format!("C19/{}/range-search-error{}", tag, suffix), format!("{}: {}", ctx, err)));
                        }
                    }
                }
            }
        }
        let limits: Vec<usize> = if full { vec![1, 2, 3, 1000] } else { vec![1_000_000] };
        let begins: Vec<u64> = if full { secs.to_vec() } else { vec![lo, secs[secs.len() / 2]] };
        for b in &begins {
            for m in &limits {
                let fresh;
                let s = if round == 0 && full {
                    fresh = DefaultMetricSearcher::new(dir.to_string(), BASE.to_string()).unwrap();
                    &fresh
                } else if round == 2 {
                    long_lived.unwrap()
                } else {
                    &searcher
                };
                cov.hit("searches");
                match s.find_from_time_with_max_lines(b * 1000, *m) {
                    Ok(items) => {
                        if let Some((sig, det)) = check_from(d, creation_sec, *b, *m, &items, ctx, crashed) {
                            return Some((format!("{}{}", sig, suffix), det));
                        }
                    }
                    Err(err) => {
                        if d.nfiles > 0 {
                            return Some((format!("C19/{}/limited-search-error{}", tag, suffix), format!("{}: {}", ctx, err)));
                        }
                    }
                }
            }
        }
    }
    None
}

/// begin second of a query between writes: alternates between the second just written and an earlier one
fn rng_pick(secs: &[u64], i: usize) -> &u64 {
    if i % 2 == 0 || secs.len() < 2 {
        secs.last().unwrap()
    } else {
        &secs[secs.len() / 2]
    }
}

/// The writer phase of a scenario: configuration, a new writer, one write call per second of the
/// history, everything below `live` recorded by the file-system seam (started here, stopped by the caller).
fn write_history(sc: &Scn, live: &str, w: &mut World, cov: &mut Cov) -> Result<(DefaultMetricLogWriter, Vec<u64>, Option<DefaultMetricSearcher>), Violation> {
    let mut cfg = ConfigEntity::new();
    cfg.config.app.app_name = APP.into();
    cfg.config.log.metric.dir = if sc.dir_without_slash { live.trim_end_matches('/').to_string() } else { live.to_string() };
    cfg.config.log.metric.use_pid = false;
    cfg.config.log.metric.flush_interval_sec = 0;
    cfg.config.use_cache_time = false;
    sentinel_core::config::reset_global_config(cfg);
    let creation_sec = sc.epoch_ns / SEC;
    // (files that the writer puts BESIDE the directory are recorded too: the prefix has no separator)
    fsseam::start(live.trim_end_matches('/'));
    if sc.io_fault_rate > 0 {
        fsseam::set_faults(sc.epoch_ns ^ 0x10FA_0175, sc.io_fault_rate);
    }
    let mut writer = match DefaultMetricLogWriter::new(sc.max_size, sc.max_files) {
        Ok(x) => x,
        Err(e) => return Err(Violation::new("C19/writer-construction-error", 0, e.to_string())),
    };
    let mut sec = creation_sec;
    let mut secs = vec![];
    let mut long_lived: Option<DefaultMetricSearcher> = None;
    for (i, s) in sc.ops.iter().enumerate() {
        sec += s.gap.max(1);
        let ts = sec * 1000 + 123;
        vc::set(ts * MS);
        if sec / 86_400 != (sec - s.gap.max(1)) / 86_400 {
            cov.hit("date_change");
        }
        let mut items: Vec<MetricItem> = s
            .items
            .iter()
            .map(|it| {
                let line = format!("{}|x|{}|{}|{}|{}|{}|{}|0|{}|0", ts, sc.res[it.r % sc.res.len()], it.c[0], it.c[1], it.c[2], it.c[3], it.c[4], it.conc);
                MetricItem::from_string(&line).expect("item")
            })
            .collect();
        if let Err(e) = writer.write(ts, &mut items) {
            let _ = fsseam::stop();
            return Err(Violation::new("C19/write-error", i, e.to_string()));
        }
        secs.push(sec);
        w.ops += 1;
        if sc.probes.contains(&i) {
            // a searcher that lives as long as the process: queries between two writes
            if long_lived.is_none() {
                long_lived = DefaultMetricSearcher::new(live.to_string(), BASE.to_string()).ok();
            }
            if let Some(ls) = &long_lived {
                cov.hit("queries_between_writes");
                // reference: what is on disk right now (retention may already have removed the second just written)
                let mut now_files: BTreeMap<String, Vec<u8>> = BTreeMap::new();
                if let Ok(rd) = std::fs::read_dir(live) {
                    for e in rd.flatten() {
                        now_files.insert(e.file_name().to_string_lossy().to_string(), std::fs::read(e.path()).unwrap_or_default());
                    }
                }
                let d_now = read_disk(&now_files);
                let ctx = format!("query between two writes, after second {} (index {}) was written", sec, i);
                let from = *rng_pick(&secs, i);
                match ls.find_by_time_and_resource(from * 1000, sec * 1000 + 999, &String::new()) {
                    Ok(items) => {
                        if let Some((sig, det)) = check_range(&d_now, creation_sec, from, sec, "", &items, &ctx, false) {
                            let _ = fsseam::stop();
                            return Err(Violation::new(format!("{}/between-writes", sig), i, det));
                        }
                    }
                    Err(e) => {
                        let _ = fsseam::stop();
                        return Err(Violation::new("C19/nocrash/range-search-error/between-writes", i, format!("{}: {}", ctx, e)));
                    }
                }
                match ls.find_from_time_with_max_lines(from * 1000, 1000) {
                    Ok(items) => {
                        if let Some((sig, det)) = check_from(&d_now, creation_sec, from, 1000, &items, &ctx, false) {
                            let _ = fsseam::stop();
                            return Err(Violation::new(format!("{}/between-writes", sig), i, det));
                        }
                    }
                    Err(e) => {
                        let _ = fsseam::stop();
                        return Err(Violation::new("C19/nocrash/limited-search-error/between-writes", i, format!("{}: {}", ctx, e)));
                    }
                }
            }
        }
    }
    Ok((writer, secs, long_lived))
}

fn run(sc: &Scn, root: &str, w: &mut World, tr: &mut Trace, cov: &mut Cov) -> Option<Violation> {
    let live = format!("{}/live/", root);
    let synth = format!("{}/synth/", root);
    let _ = std::fs::remove_dir_all(root);
    std::fs::create_dir_all(&live).expect("mkdir");
    let creation_sec = sc.epoch_ns / SEC;
    let (writer, secs, long_lived) = match write_history(sc, &live, w, cov) {
        Ok(x) => x,
        Err(v) => return Some(v),
    };
    drop(writer);
    let (short_writes, eintrs) = fsseam::fault_counts();
    cov.add("short_writes_injected", short_writes as u64);
    cov.add("eintr_injected", eintrs as u64);
    let log = fsseam::stop();
    for op in &log {
        let p = match op {
            FsOp::Create(p) | FsOp::Unlink(p) | FsOp::Write(p, _) => p,
        };
        if !p.starts_with(live.as_str()) {
            return Some(Violation::new("C19/writer-puts-files-outside-the-configured-directory", 0, format!("metric directory configured as {:?}, file {:?}", if sc.dir_without_slash { live.trim_end_matches('/') } else { live.as_str() }, p)));
        }
    }
    let creates = log.iter().filter(|o| matches!(o, FsOp::Create(_))).count();
    let unlinks = log.iter().filter(|o| matches!(o, FsOp::Unlink(_))).count();
    cov.add("files_created", creates as u64);
    cov.add("files_removed_by_retention", unlinks as u64);
    cov.add("bytes_issued", fsseam::payload_bytes(&log) as u64);
    tr.word(log.len() as u64);
    tr.word(fsseam::payload_bytes(&log) as u64);
    // self-check of the seam: the synthesised full state equals the live directory
    let files = fsseam::synthesize(&log, log.len(), 0, &live, &synth);
    for (name, content) in &files {
        match std::fs::read(format!("{}{}", live, name)) {
            Ok(c) if c == *content => {}
            _ => return Some(Violation::new("HARNESS/c19-oplog-differs-from-directory", 0, format!("file {}", name))),
        }
    }
    let real_count = std::fs::read_dir(&live).map(|d| d.count()).unwrap_or(0);
    if real_count != files.len() {
        return Some(Violation::new("HARNESS/c19-oplog-differs-from-directory", 0, format!("{} files on disk, {} in the op log", real_count, files.len())));
    }
    // ---- (1) no crash: exhaustive windows on the live directory
    let d = read_disk(&files);
    if d.nfiles >= 2 {
        cov.hit("histories_with_roll_over");
    }
    let run_search = |dir: &str, d: &Disk, secs: &[u64], full: bool, ctx: &str, crashed: bool, long_lived: Option<&DefaultMetricSearcher>, cov: &mut Cov| -> Option<(String, String)> {
        let r = std::panic::catch_unwind(std::panic::AssertUnwindSafe(|| searches(dir, d, creation_sec, secs, &sc.res, full, ctx, crashed, long_lived, cov)));
        match r {
            Ok(x) => x,
            Err(_) => {
                let (loc, msg) = crate::seams::take_last_panic().unwrap_or_default();
                Some((format!("C19/{}/search-panics@{}", if crashed { "crash" } else { "nocrash" }, loc.trim_start_matches("sentinel-core/src/core/")), format!("{}: {}", ctx, msg)))
            }
        }
    };
    if let Some((sig, det)) = run_search(&live, &d, &secs, true, "uncrashed directory", false, long_lived.as_ref(), cov) {
        return Some(Violation::new(sig, sc.ops.len(), det));
    }
    tr.word(d.lines.len() as u64);
    // ---- (2) every crash point
    let mut states = 0u64;
    if sc.crash {
        for (i, op) in log.iter().enumerate() {
            let extra_max = if let FsOp::Write(_, b) = op { b.len() } else { 1 };
            // state before op i (extra = 0) and, for writes, after each byte but the last (which is "before op i+1")
            for extra in 0..extra_max {
                let files = fsseam::synthesize(&log, i, extra, &live, &synth);
                let d = read_disk(&files);
                states += 1;
                if d.torn.is_some() {
                    cov.hit("crash_states_with_torn_line");
                }
                if files.iter().any(|(n, c)| n.ends_with(".idx") && c.len() % 16 != 0) {
                    cov.hit("crash_states_with_torn_index_entry");
                }
                let ctx = format!("crash before op {} (+{} bytes) of {:?}", i, extra, match op { FsOp::Write(p, b) => format!("write {} bytes to {}", b.len(), &p[live.len()..]), FsOp::Create(p) => format!("create {}", &p[live.len()..]), FsOp::Unlink(p) => format!("unlink {}", &p[live.len()..]) });
                if let Some((sig, det)) = run_search(&synth, &d, &secs, false, &ctx, true, None, cov) {
                    return Some(Violation::new(sig, i, det));
                }
                // ---- (3) restart after crash: a new writer on the crashed directory
                if sc.restart_every > 0 && states % sc.restart_every as u64 == 0 {
                    cov.hit("restarts_after_crash");
                    let mut cfg = ConfigEntity::new();
                    cfg.config.app.app_name = APP.into();
                    cfg.config.log.metric.dir = synth.clone();
                    cfg.config.log.metric.use_pid = false;
                    cfg.config.log.metric.flush_interval_sec = 0;
                    cfg.config.use_cache_time = false;
                    sentinel_core::config::reset_global_config(cfg);
                    let restart_sec = secs.last().cloned().unwrap_or(creation_sec) + 2;
                    vc::set((restart_sec * 1000 + 500) * MS);
                    let rctx = format!("{}; then a new writer on that directory wrote two more seconds", ctx);
                    let outcome = std::panic::catch_unwind(std::panic::AssertUnwindSafe(|| -> Result<Vec<u64>, String> {
                        let mut wr = DefaultMetricLogWriter::new(sc.max_size, sc.max_files).map_err(|e| e.to_string())?;
                        let mut more = vec![];
                        for k in [1u64, 3] {
                            let sec = restart_sec + k;
                            let ts = sec * 1000 + 123;
                            vc::set(ts * MS);
                            let line = format!("{}|x|{}|{}|1|2|0|9|0|1|0", ts, sc.res[0], 10 + k);
                            let mut items = vec![MetricItem::from_string(&line).expect("item")];
                            wr.write(ts, &mut items).map_err(|e| e.to_string())?;
                            more.push(sec);
                        }
                        Ok(more)
                    }));
                    let more = match outcome {
                        Ok(Ok(m)) => m,
                        Ok(Err(e)) => return Some(Violation::new("C19/restart/writer-error-on-crashed-directory", i, format!("{}: {}", rctx, e))),
                        Err(_) => {
                            let (loc, msg) = crate::seams::take_last_panic().unwrap_or_default();
                            return Some(Violation::new(format!("C19/restart/writer-panics@{}", loc.trim_start_matches("sentinel-core/src/core/")), i, format!("{}: {}", rctx, msg)));
                        }
                    };
                    let mut after: BTreeMap<String, Vec<u8>> = BTreeMap::new();
                    if let Ok(rd) = std::fs::read_dir(&synth) {
                        for e in rd.flatten() {
                            after.insert(e.file_name().to_string_lossy().to_string(), std::fs::read(e.path()).unwrap_or_default());
                        }
                    }
                    let d2 = read_disk(&after);
                    // (retention may remove even the file just written when the size limit is tiny: the reference
                    // is what the directory holds after the restart, not what the second writer was given)
                    if more.iter().any(|sec| d2.lines.iter().any(|l| l.sec == *sec)) {
                        cov.hit("restarts_whose_new_lines_survive_retention");
                    }
                    let mut secs2 = secs.clone();
                    secs2.extend(more.iter().cloned());
                    if let Some((sig, det)) = run_search(&synth, &d2, &secs2, false, &rctx, true, None, cov) {
                        return Some(Violation::new(sig.replace("C19/crash/", "C19/restart/"), i, det));
                    }
                }
            }
        }
    }
    cov.add("crash_states", states);
    cov.state(states * 7 + d.nfiles as u64);
    cov.nontrivial = if sc.crash { d.nfiles >= 2 && states >= 200 } else { d.nfiles >= 2 };
    tr.word(states);
    None
}


// ---- validation of the crash synthesis against real process deaths ----------------------------

/// child side: run the writer phase of the scenario with the seam in kill mode; the process dies
/// inside the seam at the given operation. Exit code 3 if the history ends before that point.
pub fn kill_child_main(scenario_file: &str, nops: usize, extra: usize, root: &str) -> ! {
    let sc: Scn = serde_json::from_slice(&std::fs::read(scenario_file).expect("read scenario")).expect("parse scenario");
    crate::engine::init_single_process(&C19);
    let live = format!("{}/live/", root);
    let _ = std::fs::remove_dir_all(root);
    std::fs::create_dir_all(&live).expect("mkdir");
    let mut w = World::start(sc.epoch_ns);
    let mut cov = Cov::default();
    fsseam::set_kill(nops, extra);
    let r = write_history(&sc, &live, &mut w, &mut cov);
    if let Ok((writer, _, _)) = r {
        drop(writer);
    }
    std::process::exit(3);
}

/// parent side: for `n` generated histories, record the operation log in-process, pick crash points
/// (before an operation, inside a write, inside an index entry), let a child process really die
/// there, and compare the directory it leaves with the synthesised one, byte by byte.
pub fn validate_main(n: u64, seed: u64) -> i32 {
    crate::engine::init_single_process(&C19);
    let exe = std::env::current_exe().expect("exe");
    let base = scratch_root();
    let (mut points, mut bad, mut torn_idx, mut torn_line) = (0u64, 0u64, 0u64, 0u64);
    for i in 0..n {
        let scv = crate::engine::make_scenario(&C19, seed, i, false);
        let sc: Scn = serde_json::from_value(scv.clone()).expect("scenario");
        let root = format!("{}-val", base);
        let live = format!("{}/live/", root);
        let synth = format!("{}/synth/", root);
        let child_root = format!("{}-child", base);
        let _ = std::fs::remove_dir_all(&root);
        std::fs::create_dir_all(&live).expect("mkdir");
        let mut w = World::start(sc.epoch_ns);
        let mut cov = Cov::default();
        let log = match write_history(&sc, &live, &mut w, &mut cov) {
            Ok((writer, _, _)) => {
                drop(writer);
                fsseam::stop()
            }
            Err(v) => {
                println!("validate: history {} failed to write: {}", i, v.detail);
                let _ = fsseam::stop();
                continue;
            }
        };
        sentinel_core::config::reset_global_config(ConfigEntity::new());
        let scen_file = format!("{}/scenario.json", root);
        std::fs::write(&scen_file, serde_json::to_vec(&scv).unwrap()).expect("write scenario");
        let mut rng = Rng::new(seed ^ (i.wrapping_mul(0x9E37_79B9_7F4A_7C15)));
        for _ in 0..6 {
            let k = rng.below(log.len() as u64 + 1) as usize;
            let extra = match log.get(k) {
                Some(FsOp::Write(_, b)) if b.len() > 1 && rng.chance(3, 4) => rng.range(1, b.len() as u64 - 1) as usize,
                _ => 0,
            };
            let files = fsseam::synthesize(&log, k, extra, &live, &synth);
            if files.iter().any(|(name, c)| name.ends_with(".idx") && c.len() % 16 != 0) {
                torn_idx += 1;
            } else if extra > 0 {
                torn_line += 1;
            }
            let st = std::process::Command::new(&exe).args(["c19-kill", &scen_file, &k.to_string(), &extra.to_string(), &child_root]).env("VERIF_ROOT", crate::engine::verif_root()).status().expect("spawn child");
            let expect_code = if k >= log.len() { 3 } else { 0 };
            points += 1;
            let mut diff = vec![];
            if st.code() != Some(expect_code) {
                diff.push(format!("child exit status {:?}, expected {}", st.code(), expect_code));
            }
            let child_live = format!("{}/live/", child_root);
            let mut on_disk: std::collections::BTreeMap<String, Vec<u8>> = Default::default();
            if let Ok(rd) = std::fs::read_dir(&child_live) {
                for e in rd.flatten() {
                    on_disk.insert(e.file_name().to_string_lossy().to_string(), std::fs::read(e.path()).unwrap_or_default());
                }
            }
            for (name, c) in &files {
                match on_disk.get(name) {
                    Some(x) if x == c => {}
                    Some(x) => diff.push(format!("{}: {} bytes after the real death, {} synthesised", name, x.len(), c.len())),
                    None => diff.push(format!("{}: missing after the real death", name)),
                }
            }
            for name in on_disk.keys() {
                if !files.contains_key(name) {
                    diff.push(format!("{}: exists after the real death, not synthesised", name));
                }
            }
            if !diff.is_empty() {
                bad += 1;
                println!("validate: history {} crash point op {} (+{} bytes): {}", i, k, extra, diff.join("; "));
            }
            let _ = std::fs::remove_dir_all(&child_root);
        }
        let _ = std::fs::remove_dir_all(&root);
    }
    println!("c19 crash-synthesis validation: {} histories, {} real process deaths compared with the synthesised state ({} inside an index entry, {} inside a line): {} differences", n, points, torn_idx, torn_line, bad);
    if bad > 0 {
        println!("HARNESS-ERROR the synthesised crash states differ from real ones");
        2
    } else {
        0
    }
}
