//! C20 — Tower middleware calls the service iff admitted and always releases admission.

use crate::engine::{shrink_ops, Budget, Cov, Prop, RunResult, Violation};
use crate::rng::{Rng, Trace};
use crate::world::{IsoSpec, World, MS, SEC};
use sentinel_core::base::ConcurrencyStat;
use sentinel_core::{isolation, stat};
use sentinel_tower::{BoxError, SentinelService, ServiceRole};
use serde::{Deserialize, Serialize};
use serde_json::{json, Value};
use std::future::Future;
use std::pin::Pin;
use std::sync::{Arc, Mutex};
use std::task::{Context, Poll, RawWaker, RawWakerVTable, Waker};
use tower::Service;

#[derive(Serialize, Deserialize, Clone, Debug)]
#[serde(tag = "t")]
pub enum Op {
    /// a request; inner service outcome: ok (true/false) after `pend` Pending polls
    Call { ok: bool, pend: u8 },
    /// poll the k-th in-flight request future once
    Poll { k: usize },
    /// drop the k-th in-flight request future before completion (client role only; reported separately)
    Drop { k: usize },
    Adv { ms: u64 },
    /// the wall clock is stepped BACK (clock correction) while requests may be in flight
    Back { ms: u64 },
}

#[derive(Serialize, Deserialize, Clone, Debug)]
pub struct Scn {
    pub epoch_ns: u64,
    pub res: String,
    pub threshold: u32,
    pub server: bool,
    pub fallback: bool,
    /// the fallback can only answer requests with an even id and returns an error for the others
    #[serde(default)]
    pub picky: bool,
    pub ops: Vec<Op>,
}

pub struct C20;

// ---- scripted inner service -----------------------------------------------------------------

#[derive(Clone, Debug)]
pub struct Req {
    pub id: u32,
    pub res: String,
    pub ok: bool,
    pub pend: u8,
}

#[derive(Debug, PartialEq, Clone)]
pub enum Resp {
    Inner(u32),
    Fallback(u32),
}

#[derive(Debug)]
pub struct InnerErr(u32);
impl std::fmt::Display for InnerErr {
    fn fmt(&self, f: &mut std::fmt::Formatter<'_>) -> std::fmt::Result {
        write!(f, "inner service failed for request {}", self.0)
    }
}
impl std::error::Error for InnerErr {}

#[derive(Clone)]
pub struct Inner {
    calls: Arc<Mutex<Vec<u32>>>,
}

pub struct InnerFut {
    req: Req,
    left: u8,
}

impl Future for InnerFut {
    type Output = Result<Resp, InnerErr>;
    fn poll(mut self: Pin<&mut Self>, _cx: &mut Context<'_>) -> Poll<Self::Output> {
        if self.left > 0 {
            self.left -= 1;
            return Poll::Pending;
        }
        if self.req.ok {
            Poll::Ready(Ok(Resp::Inner(self.req.id)))
        } else {
            Poll::Ready(Err(InnerErr(self.req.id)))
        }
    }
}

impl Service<Req> for Inner {
    type Response = Resp;
    type Error = InnerErr;
    type Future = InnerFut;
    fn poll_ready(&mut self, _cx: &mut Context<'_>) -> Poll<Result<(), Self::Error>> {
        Poll::Ready(Ok(()))
    }
    fn call(&mut self, req: Req) -> Self::Future {
        self.calls.lock().unwrap().push(req.id);
        InnerFut { left: req.pend, req }
    }
}

fn extract(r: &Req) -> String {
    r.res.clone()
}

fn fallback(r: &Req, _e: sentinel_core::Error) -> Result<Resp, BoxError> {
    Ok(Resp::Fallback(r.id))
}

#[derive(Debug)]
pub struct FallbackErr(u32);
impl std::fmt::Display for FallbackErr {
    fn fmt(&self, f: &mut std::fmt::Formatter<'_>) -> std::fmt::Result {
        write!(f, "fallback cannot answer request {}", self.0)
    }
}
impl std::error::Error for FallbackErr {}

fn picky_fallback(r: &Req, _e: sentinel_core::Error) -> Result<Resp, BoxError> {
    if r.id % 2 == 0 {
        Ok(Resp::Fallback(r.id))
    } else {
        Err(Box::new(FallbackErr(r.id)))
    }
}

fn noop_waker() -> Waker {
    fn clone(_: *const ()) -> RawWaker {
        RawWaker::new(std::ptr::null(), &VT)
    }
    fn noop(_: *const ()) {}
    static VT: RawWakerVTable = RawWakerVTable::new(clone, noop, noop, noop);
    unsafe { Waker::from_raw(RawWaker::new(std::ptr::null(), &VT)) }
}

struct Flight {
    id: u32,
    admitted: bool,
    ok: bool,
    fut: Pin<Box<dyn Future<Output = Result<Resp, BoxError>> + Send>>,
}

impl Prop for C20 {
    fn id(&self) -> &'static str {
        "C20"
    }
    fn gap_ns(&self) -> u64 {
        3_600 * SEC
    }
    fn budget(&self, thorough: bool) -> Budget {
        if thorough {
            Budget { runs: 300_000, wall_s: 240 }
        } else {
            Budget { runs: 6_000, wall_s: 30 }
        }
    }
    fn rule_text(&self) -> &'static str {
        "seeded scenarios: 10-50 ops over requests through sentinel_tower::SentinelService (server and client role, without fallback, with a fallback that answers, and with one that returns an error for odd request ids) around a scripted inner service whose outcome per call is {ready Ok, ready Err, Pending x j then Ok, Pending x j then Err}, an isolation rule of threshold 1..3 on the extracted resource, and a hand-written executor that polls the in-flight request futures one at a time in PRNG order with a no-op waker; the virtual wall clock is advanced and (one time step in five) stepped back by 1-500 ms between operations; dropping a future before completion is explored for the client role and counted separately (not a verdict). After every op: inner service called exactly once iff the reference isolation model admits, rejected requests yield fallback or error, completed requests (Ok or Err) release their admission, current_concurrency equals the reference. Non-trivial = an admitted request that ended with an inner error, a rejection and a later admission; distinct = distinct trace hash."
    }
    fn components(&self) -> Value {
        json!({"real": ["middleware/tower: SentinelService::call, deal_with_sentinel!; sentinel-core: EntryBuilder, slot chain, isolation slot, resource node concurrency"],
               "stub": ["inner tower service (scripted)", "async executor (deterministic, one poll at a time, no-op waker)", "clock (virtual, hook H1)", "getrandom (seeded)"]})
    }

    fn generate(&self, rng: &mut Rng, slot_ns: u64, avoid: bool) -> Value {
        let epoch_ns = slot_ns;
        let server = rng.chance(1, 2);
        let nops = rng.range(10, 50);
        let w = [rng.range(4, 9), rng.range(4, 10), if server { 0 } else { 1 }, 1];
        let err_w = if avoid { 0 } else { rng.range(1, 3) };
        let mut ops = vec![];
        for _ in 0..nops {
            match rng.weighted(&w) {
                0 => ops.push(Op::Call { ok: !rng.chance(err_w, 4), pend: *rng.pick(&[0u8, 0, 1, 2, 5]) }),
                1 => ops.push(Op::Poll { k: rng.below(6) as usize }),
                2 => ops.push(Op::Drop { k: rng.below(6) as usize }),
                _ => {
                    if rng.chance(1, 5) {
                        ops.push(Op::Back { ms: *rng.pick(&[1u64, 10, 500]) })
                    } else {
                        ops.push(Op::Adv { ms: *rng.pick(&[0u64, 1, 10, 500, 2000]) })
                    }
                }
            }
        }
        serde_json::to_value(Scn { epoch_ns, res: format!("c20_{:x}", rng.below(0xffffff)), threshold: rng.range(1, 3) as u32, server, fallback: rng.chance(1, 2), picky: rng.chance(1, 2), ops }).unwrap()
    }

    fn execute(&self, scenario: &Value, cov: &mut Cov) -> RunResult {
        let sc: Scn = serde_json::from_value(scenario.clone()).expect("C20 scenario");
        let mut w = World::start(sc.epoch_ns);
        let mut tr = Trace::default();
        let viol = run(&sc, &mut w, &mut tr, cov);
        cov.sim_ns += w.sim_ns;
        cov.ops += w.ops;
        RunResult::new(tr.hash(), viol)
    }

    fn shrink(&self, scenario: &Value) -> Vec<Value> {
        let mut out = shrink_ops(scenario);
        let sc: Scn = serde_json::from_value(scenario.clone()).unwrap();
        for (i, op) in sc.ops.iter().enumerate() {
            if let Op::Call { ok, pend } = op {
                if *pend > 0 {
                    let mut c = sc.clone();
                    c.ops[i] = Op::Call { ok: *ok, pend: 0 };
                    out.push(serde_json::to_value(c).unwrap());
                }
            }
        }
        out
    }
}

fn run(sc: &Scn, w: &mut World, tr: &mut Trace, cov: &mut Cov) -> Option<Violation> {
    isolation::load_rules(vec![IsoSpec { id: "cap".into(), res: sc.res.clone(), threshold: sc.threshold }.rule()]);
    let calls = Arc::new(Mutex::new(vec![]));
    let inner = Inner { calls: calls.clone() };
    let mut svc: SentinelService<Inner, Req> =
        SentinelService::new(inner, if sc.server { ServiceRole::Server } else { ServiceRole::Client }).with_extractor(extract);
    if sc.fallback {
        svc = svc.with_fallback(if sc.picky { picky_fallback } else { fallback });
    }
    let waker = noop_waker();
    let mut cx = Context::from_waker(&waker);
    let mut flights: Vec<Flight> = vec![];
    let mut ref_inflight: u32 = 0;
    let mut next_id = 0u32;
    let (mut saw_err_release, mut saw_reject, mut saw_admit_after_release) = (false, false, false);
    let mut released_once = false;
    let role = if sc.server { "server" } else { "client" };
    let conc = |res: &String| stat::get_resource_node(res).map(|n| n.current_concurrency()).unwrap_or(0);
    for (i, op) in sc.ops.iter().enumerate() {
        match op {
            Op::Adv { ms } => w.advance(ms * MS),
            Op::Back { ms } => {
                crate::seams::vc::set(crate::seams::vc::now_ns().saturating_sub(ms * MS));
                w.ops += 1;
                cov.hit("clock_stepped_back");
            }
            Op::Call { ok, pend } => {
                w.ops += 1;
                next_id += 1;
                let id = next_id;
                let expect_admit = ref_inflight + 1 <= sc.threshold;
                let before = calls.lock().unwrap().iter().filter(|c| **c == id).count();
                let fut = svc.call(Req { id, res: sc.res.clone(), ok: *ok, pend: *pend });
                let after = calls.lock().unwrap().iter().filter(|c| **c == id).count();
                let called = after - before;
                tr.word(called as u64);
                if expect_admit && called != 1 {
                    return Some(Violation::new(format!("C20/{}/admitted-but-inner-not-called-once", role), i, format!("request {}: inner called {} times, reference in-flight {} threshold {}", id, called, ref_inflight, sc.threshold)));
                }
                if !expect_admit && called != 0 {
                    return Some(Violation::new(format!("C20/{}/rejected-but-inner-called", role), i, format!("request {}: inner called {} times although in-flight {} = threshold {}", id, called, ref_inflight, sc.threshold)));
                }
                if expect_admit {
                    ref_inflight += 1;
                    if released_once {
                        saw_admit_after_release = true;
                    }
                } else {
                    saw_reject = true;
                }
                flights.push(Flight { id, admitted: expect_admit, ok: *ok, fut });
            }
            Op::Poll { k } => {
                if flights.is_empty() {
                    continue;
                }
                w.ops += 1;
                let idx = *k % flights.len();
                let r = flights[idx].fut.as_mut().poll(&mut cx);
                match r {
                    Poll::Pending => {
                        cov.hit("poll_pending");
                        if !flights[idx].admitted {
                            return Some(Violation::new(format!("C20/{}/rejected-request-pending", role), i, "a rejected request must complete at once"));
                        }
                    }
                    Poll::Ready(out) => {
                        let f = flights.remove(idx);
                        tr.word(f.id as u64 * 4 + out.is_ok() as u64);
                        if f.admitted {
                            // the inner call finished (response or error): admission released
                            ref_inflight -= 1;
                            released_once = true;
                            match (&out, f.ok) {
                                (Ok(Resp::Inner(x)), true) if *x == f.id => {}
                                (Err(_), false) => {
                                    saw_err_release = true;
                                    cov.hit("inner_service_error");
                                }
                                _ => return Some(Violation::new(format!("C20/{}/wrong-output-for-admitted-request", role), i, format!("request {} (inner ok={}): output {:?}", f.id, f.ok, out.as_ref().map_err(|e| e.to_string())))),
                            }
                        } else {
                            let fallback_answers = sc.fallback && !(sc.picky && f.id % 2 == 1);
                            match (&out, fallback_answers) {
                                (Err(e), false) if sc.fallback => {
                                    if !e.to_string().starts_with("fallback cannot answer") {
                                        return Some(Violation::new(format!("C20/{}/wrong-output-for-rejected-request", role), i, format!("request {}: the fallback's error was replaced by {:?}", f.id, e.to_string())));
                                    }
                                    cov.hit("rejected_and_fallback_returns_error")
                                }
                                (Ok(Resp::Fallback(x)), true) if *x == f.id => cov.hit("rejected_with_fallback"),
                                (Err(_), false) => cov.hit("rejected_with_error"),
                                _ => return Some(Violation::new(format!("C20/{}/wrong-output-for-rejected-request", role), i, format!("request {} fallback={}: output {:?}", f.id, sc.fallback, out.as_ref().map_err(|e| e.to_string())))),
                            }
                        }
                    }
                }
            }
            Op::Drop { k } => {
                if flights.is_empty() || sc.server {
                    continue;
                }
                let idx = *k % flights.len();
                let f = flights.remove(idx);
                // explored, reported separately: the inner call never finishes, the admission stays held
                cov.hit(if f.admitted { "future_dropped_before_completion_admission_held" } else { "rejected_future_dropped" });
                drop(f);
            }
        }
        let c = conc(&sc.res);
        tr.word(c as u64);
        cov.state(c as u64 * 16 + flights.len() as u64);
        if c != ref_inflight {
            let last_err = matches!(op, Op::Poll { .. });
            return Some(Violation::new(
                format!("C20/{}/in-flight-{}", role, if c > ref_inflight { if last_err { "not-released-after-completion" } else { "excess" } } else { "missing" }),
                i,
                format!("after {:?}: resource in-flight {} but reference {} (threshold {})", op, c, ref_inflight, sc.threshold),
            ));
        }
    }
    // finish everything still in flight (so nothing of this run survives), same checks
    let mut guard = 0;
    while !flights.is_empty() && guard < 10_000 {
        guard += 1;
        let r = flights[0].fut.as_mut().poll(&mut cx);
        if let Poll::Ready(_) = r {
            let f = flights.remove(0);
            if f.admitted {
                ref_inflight -= 1;
            }
        }
    }
    let c = conc(&sc.res);
    if c != ref_inflight {
        return Some(Violation::new(format!("C20/{}/in-flight-not-released-at-end", role), sc.ops.len(), format!("in-flight {} reference {}", c, ref_inflight)));
    }
    cov.nontrivial = saw_err_release && saw_reject && saw_admit_after_release;
    None
}
