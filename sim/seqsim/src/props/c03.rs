//! C03 — circuit breakers follow the Closed/Open/Half-Open state machine.

use crate::engine::{shrink_ops, Budget, Cov, Prop, RunResult, Violation};
use crate::refwin::{RefWin, K};
use crate::rng::{Rng, Trace};
use crate::timegen;
use crate::world::{BreakerSpec, FlowSpec, World, MS, SEC};
use sentinel_core::base::Snapshot;
use sentinel_core::circuitbreaker as cb;
use sentinel_core::flow;
use serde::{Deserialize, Serialize};
use serde_json::{json, Value};
use std::sync::{Arc, Mutex};

#[derive(Serialize, Deserialize, Clone, Debug)]
#[serde(tag = "t")]
pub enum Op {
    Enter,
    /// complete the k-th in-flight entry, optionally flagged as business error
    Complete { k: usize, err: bool },
    Adv { ms: u64 },
}

#[derive(Serialize, Deserialize, Clone, Debug)]
pub struct Scn {
    pub epoch_ns: u64,
    pub res: String,
    pub breakers: Vec<BreakerSpec>,
    /// optional reject-type flow rule on the same resource (global window): rejects a probe "elsewhere"
    pub other: Option<FlowSpec>,
    pub ops: Vec<Op>,
}

// ---- recording listener -------------------------------------------------------------------

#[derive(Clone, Debug, PartialEq, Eq)]
pub struct Ev {
    /// 0 -> Closed, 1 -> Open, 2 -> HalfOpen
    pub to: u8,
    pub prev: u8,
    pub rule: String,
}

fn st(s: cb::State) -> u8 {
    match s {
        cb::State::Closed => 0,
        cb::State::Open => 1,
        cb::State::HalfOpen => 2,
    }
}

#[derive(Default)]
pub struct Recorder {
    pub log: Mutex<Vec<Ev>>,
}

impl cb::StateChangeListener for Recorder {
    fn on_transform_to_closed(&self, prev: cb::State, rule: Arc<cb::Rule>) {
        self.log.lock().unwrap().push(Ev { to: 0, prev: st(prev), rule: rule.id.clone() });
    }
    fn on_transform_to_open(&self, prev: cb::State, rule: Arc<cb::Rule>, _s: Option<Arc<Snapshot>>) {
        self.log.lock().unwrap().push(Ev { to: 1, prev: st(prev), rule: rule.id.clone() });
    }
    fn on_transform_to_half_open(&self, prev: cb::State, rule: Arc<cb::Rule>) {
        self.log.lock().unwrap().push(Ev { to: 2, prev: st(prev), rule: rule.id.clone() });
    }
}

// ---- reference machine (DESIGN appendix A.2) ------------------------------------------------

pub struct RefBreaker {
    pub spec: BreakerSpec,
    pub state: u8,
    pub next_retry: u64,
    pub win: RefWin, // K::Error = target (bad), K::Complete = total
}

impl RefBreaker {
    pub fn new(spec: &BreakerSpec) -> RefBreaker {
        RefBreaker { spec: spec.clone(), state: 0, next_retry: 0, win: RefWin::default() }
    }
    fn geom(&self) -> (u64, u64) {
        let i = self.spec.interval_ms as u64;
        (i, i / self.spec.eff_buckets() as u64)
    }
    pub fn on_complete(&mut self, t: u64, rt: u64, err: bool, emit: &mut Vec<Ev>) {
        let bad = if self.spec.strategy == 0 { rt > self.spec.max_rt } else { err };
        if bad {
            self.win.add(t, K::Error, 1);
        }
        self.win.add(t, K::Complete, 1);
        match self.state {
            2 => {
                if !bad {
                    self.state = 0;
                    emit.push(Ev { to: 0, prev: 2, rule: self.spec.id.clone() });
                    self.win.clear();
                } else {
                    self.state = 1;
                    self.next_retry = t + self.spec.retry_ms as u64;
                    emit.push(Ev { to: 1, prev: 2, rule: self.spec.id.clone() });
                }
            }
            0 => {
                let (i, l) = self.geom();
                let tg = self.win.sum(t, i, l, K::Error);
                let tt = self.win.sum(t, i, l, K::Complete);
                let trip = if self.spec.strategy == 2 {
                    tg >= self.spec.threshold as u64
                } else {
                    tg as f64 / tt as f64 >= self.spec.threshold
                };
                if tt >= self.spec.min_req && trip {
                    self.state = 1;
                    self.next_retry = t + self.spec.retry_ms as u64;
                    emit.push(Ev { to: 1, prev: 0, rule: self.spec.id.clone() });
                }
            }
            _ => {}
        }
    }
}

pub struct C03;

fn gen_breaker(rng: &mut Rng, res: &str, j: u64) -> BreakerSpec {
    let strategy = rng.below(3) as u8;
    let interval_ms = *rng.pick(&[1000u32, 1000, 2000, 3000, 600]);
    let buckets = *rng.pick(&[0u32, 1, 1, 2, 3, 4, 5, 7]);
    let retry_ms = *rng.pick(&[100u32, 500, 1000, 1500, 3000, 5000]);
    let threshold = match strategy {
        2 => *rng.pick(&[0.0f64, 1.0, 2.0, 3.0, 2.5]),
        _ => *rng.pick(&[0.0f64, 1.0 / 3.0, 0.5, 0.6, 1.0]),
    };
    BreakerSpec {
        id: format!("b{}_{:x}", j, rng.below(0xffff)),
        res: res.to_string(),
        strategy,
        retry_ms,
        min_req: rng.range(0, 4),
        interval_ms,
        buckets,
        max_rt: *rng.pick(&[0u64, 10, 100, 10, 100, 59_999, 60_000, 120_000]),
        threshold,
    }
}

impl Prop for C03 {
    fn id(&self) -> &'static str {
        "C03"
    }
    fn gap_ns(&self) -> u64 {
        7_200 * SEC
    }
    fn budget(&self, thorough: bool) -> Budget {
        if thorough {
            Budget { runs: 300_000, wall_s: 240 }
        } else {
            Budget { runs: 6_000, wall_s: 30 }
        }
    }
    fn rule_text(&self) -> &'static str {
        "seeded scenarios on one resource: 1-2 breakers (all three strategies, min_request_amount 0..4, thresholds on/around the boundary, 1..7 buckets incl. non-dividing, retry timeout shorter/longer than the window), optionally a reject-type flow rule that rejects a probe elsewhere; 10-45 ops over enter / complete(any in-flight entry; ok|error; fast|slow via elapsed time) / advance(small, half window, window, retry, retry-1). After every op: build() result, current_state() of every breaker and the listener log are compared with a reference state machine. Non-trivial = run reaches Half-Open at least once; distinct = distinct trace hash."
    }
    fn components(&self) -> Value {
        json!({"real": ["sentinel-core: EntryBuilder, slot chain, circuit-breaker manager/slot/stat slot, the three breakers, CounterLeapArray, exit handlers, flow slot"],
               "stub": ["clock (virtual, hook H1)", "getrandom (seeded)", "listener (recording)", "logger (a sink that formats every record of the library and discards it)"]})
    }

    fn generate(&self, rng: &mut Rng, slot_ns: u64, _avoid: bool) -> Value {
        let epoch_ns = slot_ns + timegen::phase_ns(rng, 20_000);
        let res = format!("c03_{:x}", rng.below(0xffffff));
        let mut breakers = vec![gen_breaker(rng, &res, 0)];
        if rng.chance(2, 5) {
            let b = gen_breaker(rng, &res, 1);
            if b.rule() != breakers[0].rule() {
                breakers.push(b);
            }
        }
        let other = if rng.chance(2, 5) {
            Some(FlowSpec::reject("other", &res, rng.range(1, 3) as f64, *rng.pick(&[0u32, 2000, 5000, 10_000])))
        } else {
            None
        };
        let nops = rng.range(10, 45);
        let w = [rng.range(4, 9), rng.range(4, 9), rng.range(2, 6)];
        let err_bias = rng.range(1, 4);
        let mut ops = vec![];
        let mut now_ms = epoch_ns / MS;
        for _ in 0..nops {
            match rng.weighted(&w) {
                0 => ops.push(Op::Enter),
                1 => ops.push(Op::Complete { k: rng.below(5) as usize, err: rng.chance(err_bias, 5) }),
                _ => {
                    let b = rng.pick(&breakers);
                    let i = b.interval_ms as u64;
                    let l = i / b.eff_buckets() as u64;
                    let retry = b.retry_ms as u64;
                    let mut ms = match rng.below(10) {
                        0 => retry,
                        1 => retry.saturating_sub(1),
                        2 => retry + 1,
                        3 => b.max_rt,
                        4 => b.max_rt + 1,
                        5 => rng.range(0, 20),
                        _ => timegen::dt_ms(rng, now_ms, l, i),
                    };
                    let left = (epoch_ns / MS + 6_000_000).saturating_sub(now_ms);
                    if ms > left {
                        ms = left;
                    }
                    now_ms += ms;
                    ops.push(Op::Adv { ms });
                }
            }
        }
        serde_json::to_value(Scn { epoch_ns, res, breakers, other, ops }).unwrap()
    }

    fn execute(&self, scenario: &Value, cov: &mut Cov) -> RunResult {
        let sc: Scn = serde_json::from_value(scenario.clone()).expect("C03 scenario");
        let mut w = World::start(sc.epoch_ns);
        let mut tr = Trace::default();
        let viol = run(&sc, &mut w, &mut tr, cov);
        w.drain();
        cov.sim_ns += w.sim_ns;
        cov.ops += w.ops;
        RunResult::new(tr.hash(), viol)
    }

    fn shrink(&self, scenario: &Value) -> Vec<Value> {
        let mut out = shrink_ops(scenario);
        let sc: Scn = serde_json::from_value(scenario.clone()).unwrap();
        if sc.breakers.len() > 1 {
            for i in 0..sc.breakers.len() {
                let mut c = sc.clone();
                c.breakers.remove(i);
                out.push(serde_json::to_value(c).unwrap());
            }
        }
        if sc.other.is_some() {
            let mut c = sc.clone();
            c.other = None;
            out.push(serde_json::to_value(c).unwrap());
        }
        for (i, op) in sc.ops.iter().enumerate() {
            if let Op::Complete { k, err: true } = op {
                let mut c = sc.clone();
                c.ops[i] = Op::Complete { k: *k, err: false };
                out.push(serde_json::to_value(c).unwrap());
            }
        }
        out
    }
}

fn run(sc: &Scn, w: &mut World, tr: &mut Trace, cov: &mut Cov) -> Option<Violation> {
    let rec = Arc::new(Recorder::default());
    cb::register_state_change_listeners(vec![rec.clone()]);
    if let Some(f) = &sc.other {
        flow::load_rules(vec![f.rule()]);
    }
    let mut passed = RefWin::default();
    cb::load_rules(sc.breakers.iter().map(|b| b.rule()).collect());
    let live = cb::get_breakers_of_resource(&sc.res);
    if live.len() != sc.breakers.len() {
        return Some(Violation::new("C03/load/breaker-count", 0, format!("{} valid rules but {} breakers", sc.breakers.len(), live.len())));
    }
    // reference machines in the order in which the manager consults them
    let mut refs: Vec<RefBreaker> = live
        .iter()
        .map(|b| RefBreaker::new(sc.breakers.iter().find(|s| s.id == b.bound_rule().id).expect("breaker of unknown rule")))
        .collect();
    let mut expected_log: Vec<Ev> = vec![];
    let mut reached_half = false;
    for (i, op) in sc.ops.iter().enumerate() {
        match op {
            Op::Adv { ms } => {
                w.advance(ms * MS);
                tr.word(*ms);
            }
            Op::Enter => {
                let t = w.now_ms();
                let mut probes: Vec<usize> = vec![];
                let mut cb_blocked = false;
                for (bi, b) in refs.iter_mut().enumerate() {
                    match b.state {
                        0 => {}
                        1 => {
                            if t >= b.next_retry {
                                b.state = 2;
                                expected_log.push(Ev { to: 2, prev: 1, rule: b.spec.id.clone() });
                                probes.push(bi);
                                reached_half = true;
                                if t == b.next_retry {
                                    cov.hit("arrival_exactly_at_retry_time");
                                }
                            } else {
                                cb_blocked = true;
                                if t + 1 == b.next_retry {
                                    cov.hit("arrival_1ms_before_retry_time");
                                }
                                break;
                            }
                        }
                        _ => {
                            cb_blocked = true;
                            cov.hit("rejected_in_half_open");
                            break;
                        }
                    }
                }
                let other_blocked = sc
                    .other
                    .as_ref()
                    .map(|r| {
                        let (_, iv, l) = crate::props::c01::geometry(r.interval_ms);
                        passed.sum(t, iv, l, K::Pass) as f64 + 1.0 > r.threshold
                    })
                    .unwrap_or(false);
                let expect_admit = !cb_blocked && !other_blocked;
                if !expect_admit {
                    for bi in &probes {
                        if refs[*bi].state == 2 {
                            refs[*bi].state = 1;
                            expected_log.push(Ev { to: 1, prev: 2, rule: refs[*bi].spec.id.clone() });
                            cov.hit(if other_blocked { "probe_rejected_by_other_rule" } else { "probe_rejected_by_other_breaker" });
                        }
                    }
                }
                let obs = w.enter(&sc.res, 1, false, None, None);
                tr.word(obs.admitted as u64);
                if obs.admitted != expect_admit {
                    let sig = if obs.admitted { "C03/enter/admitted-but-machine-rejects" } else { "C03/enter/rejected-but-machine-admits" };
                    return Some(Violation::new(
                        sig,
                        i,
                        format!(
                            "t={} states={:?} next_retry={:?} cb_blocked={} other_blocked={} block={:?}",
                            t,
                            refs.iter().map(|b| b.state).collect::<Vec<_>>(),
                            refs.iter().map(|b| b.next_retry).collect::<Vec<_>>(),
                            cb_blocked,
                            other_blocked,
                            obs.block.as_ref().map(|b| &b.text)
                        ),
                    ));
                }
                if obs.admitted {
                    passed.add(t, K::Pass, 1);
                }
                if let Some(b) = &obs.block {
                    tr.str(&b.block_type);
                    if cb_blocked && b.block_type != "CircuitBreaking" {
                        return Some(Violation::new("C03/report/block-type", i, b.text.clone()));
                    }
                }
            }
            Op::Complete { k, err } => {
                if let Some(e) = w.exit_nth(*k, *err) {
                    let t = w.now_ms();
                    let rt = t - e.start_ms;
                    for b in refs.iter_mut() {
                        if b.state == 2 {
                            cov.hit(if e.start_ms + 0 < t && b.state == 2 { "completion_in_half_open" } else { "completion_in_half_open" });
                        }
                        if b.state == 1 {
                            cov.hit("completion_while_open");
                        }
                        let before = b.state;
                        b.on_complete(t, rt, *err, &mut expected_log);
                        if before == 0 && b.state == 1 {
                            cov.hit("opened");
                        }
                        if before == 2 && b.state == 0 {
                            cov.hit("closed_after_probe");
                        }
                        if before == 2 && b.state == 1 {
                            cov.hit("reopened_after_probe");
                        }
                    }
                    tr.word(rt * 2 + *err as u64);
                }
            }
        }
        // compare states and the listener log after every operation
        let live = cb::get_breakers_of_resource(&sc.res);
        let mut sh = 0u64;
        for (b, r) in live.iter().zip(refs.iter()) {
            let s = st(b.current_state());
            sh = sh * 5 + s as u64;
            if s != r.state {
                return Some(Violation::new(
                    format!("C03/state/is-{}-want-{}", ["closed", "open", "halfopen"][s as usize], ["closed", "open", "halfopen"][r.state as usize]),
                    i,
                    format!("t={} breaker {:?}: state {} reference {} (next_retry ref {})", w.now_ms(), r.spec, s, r.state, r.next_retry),
                ));
            }
        }
        let got = rec.log.lock().unwrap().clone();
        if got != expected_log {
            let n = got.len().min(expected_log.len());
            let first = (0..n).find(|j| got[*j] != expected_log[*j]).unwrap_or(n);
            return Some(Violation::new(
                "C03/listener/log-differs",
                i,
                format!("first difference at event {}: got {:?} want {:?} (lengths {} / {})", first, got.get(first), expected_log.get(first), got.len(), expected_log.len()),
            ));
        }
        cov.state(sh * 1000 + w.open.len() as u64);
        tr.word(sh);
        tr.word(w.now_ms());
    }
    cov.add("listener_events", expected_log.len() as u64);
    cov.nontrivial = reached_half;
    None
}
