//! C17 — accepted configuration is usable and is the same for every thread.

use crate::engine::{shrink_ops, Budget, Cov, Prop, RunResult, Violation};
use crate::props::c02::servable;
use crate::refwin::{RefWin, K};
use crate::rng::{Rng, Trace};
use crate::timegen;
use crate::world::{World, MS, SEC};
use sentinel_core::base::{MetricEvent, ReadStat, ResourceType, WriteStat};
use sentinel_core::config::ConfigEntity;
use sentinel_core::stat;
use serde::{Deserialize, Serialize};
use serde_json::{json, Value};

#[derive(Serialize, Deserialize, Clone, Debug)]
#[serde(tag = "t")]
pub enum Op {
    Add { kind: u8, n: u64 },
    Adv { ms: u64 },
    Read,
}

#[derive(Serialize, Deserialize, Clone, Debug)]
pub struct Scn {
    pub epoch_ns: u64,
    pub res: String,
    /// (sample_count_total, interval_ms_total, sample_count, interval_ms)
    pub cfg: (u32, u32, u32, u32),
    /// configuration given as YAML text through init_with_config_file instead of as entity
    pub yaml: bool,
    pub ops: Vec<Op>,
}

pub struct C17;

fn entity(cfg: (u32, u32, u32, u32)) -> ConfigEntity {
    let mut e = ConfigEntity::new();
    e.config.stat.sample_count_total = cfg.0;
    e.config.stat.interval_ms_total = cfg.1;
    e.config.stat.sample_count = cfg.2;
    e.config.stat.interval_ms = cfg.3;
    // no background threads in simulation: collectors, ticker and metric task disabled through the entity
    e.config.use_cache_time = false;
    e.config.log.metric.flush_interval_sec = 0;
    e.config.stat.system.system_interval_ms = 0;
    e.config.stat.system.load_interval_ms = 0;
    e.config.stat.system.cpu_interval_ms = 0;
    e.config.stat.system.memory_interval_ms = 0;
    e
}

const GRID_SC: [u32; 8] = [0, 1, 2, 3, 4, 5, 10, 20];
const GRID_IV: [u32; 12] = [0, 1, 100, 250, 500, 1000, 1500, 2000, 3000, 5000, 10_000, 12_000];

impl Prop for C17 {
    fn id(&self) -> &'static str {
        "C17"
    }
    fn gap_ns(&self) -> u64 {
        7_200 * SEC
    }
    fn budget(&self, thorough: bool) -> Budget {
        if thorough {
            Budget { runs: 120_000, wall_s: 300 }
        } else {
            Budget { runs: 3_000, wall_s: 30 }
        }
    }
    fn rule_text(&self) -> &'static str {
        "seeded scenarios: a configuration (sample_count_total, interval_ms_total, sample_count, interval_ms) from a grid incl. zero, non-dividing and non-tiling values, given as entity (init_with_config) or as YAML text (init_with_config_file on a scratch file), background tasks disabled through the configuration itself; accept/reject compared with an independent predicate; a refused configuration must not be in effect (the run continues against the default geometry that was in effect before); one resource node is created on the initialising thread and one on a thread spawned and joined at once, and one on a worker thread that was started (and had read the default configuration) before initialisation; the threads are serialised through channels so that only one is ever runnable, and a 10-25 op write/advance/read history under the virtual clock is applied to both: every read must equal the reference computed with the configured geometry (so a node that silently got another geometry shows). Non-trivial = accepted configuration different from the default with >= 1 read that distinguishes it from the default geometry; distinct = distinct trace hash."
    }
    fn components(&self) -> Value {
        json!({"real": ["sentinel-core: init_with_config / init_with_config_file, ConfigEntity::check, serde_yaml parsing, config accessors, ResourceNode creation on two threads, sliding windows"],
               "stub": ["clock (virtual, hook H1)", "getrandom (seeded)", "background collectors/ticker/metric task (disabled by the configuration under test)", "file system: real, one scratch YAML file per run"]})
    }

    fn generate(&self, rng: &mut Rng, slot_ns: u64, _avoid: bool) -> Value {
        let epoch_ns = slot_ns + timegen::phase_ns(rng, 20_000);
        let cfg = match rng.below(3) {
            // mostly servable
            0 | 1 => {
                let psc = *rng.pick(&[1u32, 2, 4, 5, 10, 20]);
                let pbl = *rng.pick(&[50u32, 100, 250, 500, 1000]);
                let divs: Vec<u32> = (1..=psc).filter(|d| psc % d == 0).collect();
                let d = *rng.pick(&divs);
                let bdivs: Vec<u32> = (1..=d).filter(|b| d % b == 0).collect();
                let b = *rng.pick(&bdivs);
                (psc, psc * pbl, d / b, d * pbl)
            }
            _ => (*rng.pick(&GRID_SC), *rng.pick(&GRID_IV), *rng.pick(&GRID_SC), *rng.pick(&GRID_IV)),
        };
        let l = if cfg.0 > 0 && cfg.1 / cfg.0.max(1) > 0 { (cfg.1 / cfg.0) as u64 } else { 500 };
        let i = if cfg.3 > 0 { cfg.3 as u64 } else { 1000 };
        let nops = rng.range(10, 25);
        let mut ops = vec![];
        let mut now_ms = epoch_ns / MS;
        for _ in 0..nops {
            match rng.weighted(&[8, 6, 5]) {
                0 => ops.push(Op::Add { kind: rng.below(4) as u8, n: rng.range(1, 5) }),
                1 => {
                    let mut ms = timegen::dt_ms(rng, now_ms, l, i).min(60_000);
                    let left = (epoch_ns / MS + 3_000_000).saturating_sub(now_ms);
                    if ms > left {
                        ms = left;
                    }
                    now_ms += ms;
                    ops.push(Op::Adv { ms });
                }
                _ => ops.push(Op::Read),
            }
        }
        ops.push(Op::Read);
        serde_json::to_value(Scn { epoch_ns, res: format!("c17_{:x}", rng.below(0xffffff)), cfg, yaml: rng.chance(1, 3), ops }).unwrap()
    }

    fn execute(&self, scenario: &Value, cov: &mut Cov) -> RunResult {
        let sc: Scn = serde_json::from_value(scenario.clone()).expect("C17 scenario");
        let mut w = World::start(sc.epoch_ns);
        let mut tr = Trace::default();
        let viol = run(&sc, &mut w, &mut tr, cov);
        sentinel_core::config::reset_global_config(ConfigEntity::new());
        cov.sim_ns += w.sim_ns;
        cov.ops += w.ops;
        RunResult::new(tr.hash(), viol)
    }

    fn shrink(&self, scenario: &Value) -> Vec<Value> {
        let mut out = shrink_ops(scenario);
        let sc: Scn = serde_json::from_value(scenario.clone()).unwrap();
        if sc.yaml {
            let mut c = sc.clone();
            c.yaml = false;
            out.push(serde_json::to_value(c).unwrap());
        }
        out
    }
}

fn ev(kind: u8) -> (MetricEvent, K) {
    match kind {
        0 => (MetricEvent::Pass, K::Pass),
        1 => (MetricEvent::Block, K::Block),
        2 => (MetricEvent::Complete, K::Complete),
        _ => (MetricEvent::Error, K::Error),
    }
}

fn run(sc: &Scn, w: &mut World, tr: &mut Trace, cov: &mut Cov) -> Option<Violation> {
    let want_ok = servable(sc.cfg.2, sc.cfg.3, sc.cfg.0, sc.cfg.1);
    let how = if sc.yaml { "yaml" } else { "entity" };
    // a worker thread that exists before initialisation and has already read the (default)
    // configuration: it touches a resource, then waits; after init it will be asked to first-touch
    // another resource. Strictly serialised through channels: never two runnable threads.
    let (to_worker, worker_rx) = std::sync::mpsc::channel::<String>();
    let (worker_tx, from_worker) = std::sync::mpsc::channel();
    let pre_name = format!("{}_pre", sc.res);
    let worker = std::thread::spawn(move || {
        let _ = std::panic::catch_unwind(|| stat::get_or_create_resource_node(&pre_name, &ResourceType::Common));
        let _ = worker_tx.send(None);
        if let Ok(name) = worker_rx.recv() {
            let n = std::panic::catch_unwind(|| stat::get_or_create_resource_node(&name, &ResourceType::Common)).ok();
            let _ = worker_tx.send(n);
        }
    });
    let _ = from_worker.recv();
    let finish_worker = |name: Option<String>| {
        let r = match name {
            Some(n) => {
                let _ = to_worker.send(n);
                from_worker.recv().ok().flatten()
            }
            None => {
                drop(to_worker);
                None
            }
        };
        let _ = worker.join();
        r
    };
    let got = std::panic::catch_unwind(std::panic::AssertUnwindSafe(|| {
        if sc.yaml {
            let text = serde_yaml::to_string(&entity(sc.cfg)).expect("yaml");
            let path = crate::engine::scratch_dir().join(format!("c17-{}-{:x}.yaml", std::process::id(), sc.epoch_ns));
            std::fs::write(&path, text).expect("write yaml");
            let r = sentinel_core::init_with_config_file(path.to_string_lossy().to_string());
            let _ = std::fs::remove_file(&path);
            r
        } else {
            sentinel_core::init_with_config(entity(sc.cfg))
        }
    }));
    let got = match got {
        Ok(g) => g,
        Err(_) => {
            let (loc, msg) = crate::seams::take_last_panic().unwrap_or_default();
            finish_worker(None);
            return Some(Violation::new(format!("C17/init/{}/panic", how), 0, format!("configuration {:?}: panic at {}: {}", sc.cfg, loc, msg)));
        }
    };
    tr.word(got.is_ok() as u64);
    w.ops += 1;
    if got.is_ok() != want_ok {
        finish_worker(None);
        return Some(Violation::new(
            format!("C17/init/{}/{}", how, if want_ok { "refused-servable-configuration" } else { "accepted-unservable-configuration" }),
            0,
            format!("configuration {:?}: init result {:?}", sc.cfg, got.err().map(|e| e.to_string())),
        ));
    }
    // a refused configuration must not be in effect: everything below is then checked against the
    // configuration that was in effect before (the default)
    let eff: (u32, u32, u32, u32) = if want_ok { sc.cfg } else { (20, 10_000, 2, 1000) };
    if !want_ok {
        cov.hit("configuration_refused");
        cov.hit(if sc.yaml { "refused_via_yaml_then_used" } else { "refused_via_entity_then_used" });
    } else {
        cov.hit(if sc.yaml { "accepted_via_yaml" } else { "accepted_via_entity" });
    }
    let phase = if want_ok { "" } else { "after-refused-init/" };
    // node on the initialising thread, node on another thread (spawned and joined: never concurrent)
    let name_a = format!("{}_a", sc.res);
    let name_b = format!("{}_b", sc.res);
    let a = std::panic::catch_unwind(|| stat::get_or_create_resource_node(&name_a, &ResourceType::Common));
    let nb = name_b.clone();
    let b = std::thread::spawn(move || std::panic::catch_unwind(|| stat::get_or_create_resource_node(&nb, &ResourceType::Common))).join().expect("join");
    let name_c = format!("{}_c", sc.res);
    let c = finish_worker(Some(name_c));
    let (a, b, c) = match (a, b, c) {
        (Ok(a), Ok(b), Some(c)) => (a, b, c),
        _ => {
            let (loc, msg) = crate::seams::take_last_panic().unwrap_or_default();
            return Some(Violation::new(format!("C17/{}node/creation-panics", phase), 0, format!("{} configuration {:?}: {} {}", if want_ok { "accepted" } else { "refused" }, sc.cfg, loc, msg)));
        }
    };
    let lt = (eff.1 / eff.0) as u64;
    let iv = eff.3 as u64;
    let is_default = eff == (20, 10_000, 2, 1000);
    let mut log = RefWin::default();
    let mut distinguishing = false;
    for (i, op) in sc.ops.iter().enumerate() {
        match op {
            Op::Add { kind, n } => {
                let (me, k) = ev(*kind);
                a.add_count(me, *n);
                b.add_count(me, *n);
                c.add_count(me, *n);
                log.add(w.now_ms(), k, *n);
                w.ops += 1;
            }
            Op::Adv { ms } => w.advance(ms * MS),
            Op::Read => {
                w.ops += 1;
                let t = w.now_ms();
                for kind in 0..4u8 {
                    let (me, k) = ev(kind);
                    let want = log.sum(t, iv, lt, k);
                    if want != log.sum(t, 1000, 500, k) {
                        distinguishing = true;
                    }
                    for (node, who) in [(&a, "init-thread-node"), (&b, "other-thread-node"), (&c, "thread-started-before-init-node")] {
                        let got = node.sum(me);
                        tr.word(got);
                        if got != want {
                            return Some(Violation::new(
                                format!("C17/{}{}/window-not-as-configured", phase, who),
                                i,
                                format!(
                                    "configuration {:?} ({}): t={} sum({:?}) = {} but the configured geometry gives {} (the default geometry would give {})",
                                    sc.cfg, how, t, me, got, want, log.sum(t, 1000, 500, k)
                                ),
                            ));
                        }
                        let wq = want as f64 / (iv as f64 / 1000.0);
                        if (node.qps(me) - wq).abs() > 1e-9 * wq.max(1.0) {
                            return Some(Violation::new(format!("C17/{}{}/qps-not-as-configured", phase, who), i, format!("configuration {:?}: qps {} expected {}", sc.cfg, node.qps(me), wq)));
                        }
                    }
                }
                cov.state(a.sum(MetricEvent::Pass) * 31 + a.sum(MetricEvent::Block));
            }
        }
    }
    if distinguishing {
        cov.hit("read_distinguishes_from_default_geometry");
    }
    cov.nontrivial = !is_default && distinguishing;
    None
}
