//! C04 — every entry is accounted exactly once: pass xor block, completion, in-flight.

use crate::engine::{shrink_ops, Budget, Cov, Prop, RunResult, Violation};
use crate::refwin::{RefWin, K};
use crate::rng::{Rng, Trace};
use crate::timegen;
use crate::world::{BreakerSpec, FlowSpec, HotspotSpec, IsoSpec, SysSpec, World, MS, SEC};
use sentinel_core::base::{ConcurrencyStat, MetricEvent, ReadStat, StatNode};
use sentinel_core::{circuitbreaker as cb, flow, hotspot, isolation, stat, system};
use serde::{Deserialize, Serialize};
use serde_json::{json, Value};

#[derive(Serialize, Deserialize, Clone, Debug)]
#[serde(tag = "t")]
pub enum Op {
    Enter { r: usize, n: u32, inb: bool, arg: Option<String> },
    Exit { k: usize, err: bool },
    Adv { ms: u64 },
}

#[derive(Serialize, Deserialize, Clone, Debug, Default)]
pub struct Rules {
    pub flow: Vec<FlowSpec>,
    pub breaker: Vec<BreakerSpec>,
    pub hotspot: Vec<HotspotSpec>,
    pub iso: Vec<IsoSpec>,
    pub sys: Vec<SysSpec>,
}

impl Rules {
    pub fn load(&self) {
        flow::load_rules(self.flow.iter().map(|r| r.rule()).collect());
        cb::load_rules(self.breaker.iter().map(|r| r.rule()).collect());
        hotspot::load_rules(self.hotspot.iter().map(|r| r.rule()).collect());
        isolation::load_rules(self.iso.iter().map(|r| r.rule()).collect());
        system::load_rules(self.sys.iter().map(|r| r.rule()).collect());
    }
    pub fn len(&self) -> usize {
        self.flow.len() + self.breaker.len() + self.hotspot.len() + self.iso.len() + self.sys.len()
    }
}

#[derive(Serialize, Deserialize, Clone, Debug)]
pub struct Scn {
    pub epoch_ns: u64,
    pub res: Vec<String>,
    pub rules: Rules,
    pub ops: Vec<Op>,
    /// number of other resources that already have a statistics node when the run starts
    #[serde(default)]
    pub crowd: u32,
}

/// a random mix of rules of all five families that blocks a good share of the traffic
pub fn blocking_mix(rng: &mut Rng, res: &[String], allow_throttle: bool) -> Rules {
    let mut rules = Rules::default();
    let mut id = 0;
    let mut nid = |p: &str| {
        id += 1;
        format!("{}{}", p, id)
    };
    for r in res {
        if rng.chance(1, 2) {
            let iv = *rng.pick(&[0u32, 1000, 2000, 500, 3000, 250]);
            rules.flow.push(FlowSpec::reject(&nid("f"), r, rng.range(0, 6) as f64, iv));
        }
        if allow_throttle && rng.chance(1, 5) {
            rules.flow.push(FlowSpec {
                ctrl: 1,
                max_queue_ms: *rng.pick(&[0u32, 5, 50, 500]),
                ..FlowSpec::reject(&nid("ft"), r, rng.range(1, 50) as f64, 1000)
            });
        }
        if rng.chance(1, 6) {
            // warm-up rule (its allowance moves with the traffic)
            rules.flow.push(FlowSpec { calc: 1, warm_period: rng.range(1, 3) as u32, warm_cold: *rng.pick(&[0u32, 2, 3]), ..FlowSpec::reject(&nid("fw"), r, rng.range(3, 12) as f64, 0) });
        }
        if res.len() > 1 && rng.chance(1, 6) {
            // a rule that limits this resource by the traffic of another one
            let other = res.iter().find(|x| *x != r).unwrap().clone();
            rules.flow.push(FlowSpec { relation: 1, ref_res: other, ..FlowSpec::reject(&nid("fa"), r, rng.range(0, 4) as f64, *rng.pick(&[0u32, 2000])) });
        }
        if allow_throttle && rng.chance(1, 8) {
            rules.hotspot.push(HotspotSpec {
                id: nid("ht"),
                res: r.clone(),
                metric: 1,
                ctrl: 1,
                index: 0,
                key: String::new(),
                threshold: rng.range(1, 20),
                max_queue_ms: *rng.pick(&[0u64, 20, 200]),
                burst: 0,
                duration_s: 1,
                capacity: 0,
                specific: vec![],
            });
        }
        if rng.chance(1, 3) {
            rules.iso.push(IsoSpec { id: nid("i"), res: r.clone(), threshold: rng.range(1, 4) as u32 });
        }
        if rng.chance(1, 3) {
            rules.hotspot.push(HotspotSpec {
                id: nid("hc"),
                res: r.clone(),
                metric: 0,
                ctrl: 0,
                index: 0,
                key: String::new(),
                threshold: rng.range(1, 3),
                max_queue_ms: 0,
                burst: 0,
                duration_s: 0,
                capacity: 0,
                specific: vec![],
            });
        }
        if rng.chance(1, 3) {
            rules.hotspot.push(HotspotSpec {
                id: nid("hq"),
                res: r.clone(),
                metric: 1,
                ctrl: 0,
                index: 0,
                key: String::new(),
                threshold: rng.range(0, 4),
                max_queue_ms: 0,
                burst: rng.range(0, 2),
                duration_s: rng.range(1, 2),
                capacity: 0,
                specific: vec![],
            });
        }
        if rng.chance(1, 3) {
            rules.breaker.push(BreakerSpec {
                id: nid("b"),
                res: r.clone(),
                strategy: rng.below(3) as u8,
                retry_ms: *rng.pick(&[200u32, 1000, 3000]),
                min_req: rng.range(0, 3),
                interval_ms: *rng.pick(&[1000u32, 2000]),
                buckets: *rng.pick(&[1u32, 2]),
                max_rt: *rng.pick(&[5u64, 50]),
                threshold: *rng.pick(&[0.3f64, 0.5, 1.0]),
            });
        }
    }
    if rng.chance(1, 4) {
        let metric = *rng.pick(&[2u8, 3, 1]);
        let threshold = match metric {
            2 => rng.range(1, 4) as f64,
            3 => rng.range(1, 8) as f64,
            _ => rng.range(5, 200) as f64,
        };
        rules.sys.push(SysSpec { id: nid("s"), metric, threshold, bbr: 0 });
    }
    rules
}

pub struct C04;

impl Prop for C04 {
    fn id(&self) -> &'static str {
        "C04"
    }
    fn gap_ns(&self) -> u64 {
        7_200 * SEC
    }
    fn budget(&self, thorough: bool) -> Budget {
        if thorough {
            Budget { runs: 300_000, wall_s: 300 }
        } else {
            Budget { runs: 5_000, wall_s: 30 }
        }
    }
    fn rule_text(&self) -> &'static str {
        "seeded scenarios: 2-3 resources, inbound/outbound entries with batch 1..k and optional argument, a random mix of rules of all five families that blocks part of the traffic (one run in 150 with ~10000 other resources already tracked by the node storage), 20-70 ops over Enter/Exit(ok|error)/Advance(boundary-biased). After every op the default 1 s window and a 10 s reader of every resource node and of the global inbound node (sum of pass/block/complete/rt, avg_rt, in-flight) are compared with a reference account built from the observed outcomes. Non-trivial = run has a passed, a blocked and a completed entry; distinct = distinct trace hash."
    }
    fn components(&self) -> Value {
        json!({"real": ["sentinel-core: EntryBuilder, global slot chain with all rule-check and stat slots, resource nodes, inbound node, all five rule managers"],
               "stub": ["clock and sleep (virtual, hook H1)", "getrandom (seeded)", "logger (a sink that formats every record of the library and discards it)", "system collectors (never started)"]})
    }

    fn generate(&self, rng: &mut Rng, slot_ns: u64, _avoid: bool) -> Value {
        let epoch_ns = slot_ns + timegen::phase_ns(rng, 20_000);
        let tag = rng.below(0xffffff);
        let nres = rng.range(2, 3);
        let res: Vec<String> = (0..nres).map(|i| format!("c04_{:x}_{}", tag, i)).collect();
        let rules = if rng.chance(1, 8) { Rules::default() } else { blocking_mix(rng, &res, true) };
        let nops = rng.range(20, 70);
        let maxbatch = *rng.pick(&[1u64, 1, 2, 4]);
        let mut ops = vec![];
        let mut now_ms = epoch_ns / MS;
        let w = [rng.range(4, 10), rng.range(2, 8), rng.range(2, 6)];
        for _ in 0..nops {
            match rng.weighted(&w) {
                0 => ops.push(Op::Enter {
                    r: rng.below(nres) as usize,
                    n: rng.range(1, maxbatch) as u32,
                    inb: rng.chance(1, 2),
                    arg: if rng.chance(2, 3) { Some(rng.pick(&["a", "b", "c"]).to_string()) } else { None },
                }),
                1 => ops.push(Op::Exit { k: rng.below(6) as usize, err: rng.chance(1, 3) }),
                _ => {
                    let (l, i) = *rng.pick(&[(500u64, 1000u64), (500, 10_000), (500, 2000)]);
                    let mut ms = timegen::dt_ms(rng, now_ms, l, i);
                    let left = (epoch_ns / MS + 6_000_000).saturating_sub(now_ms);
                    if ms > left {
                        ms = left;
                    }
                    now_ms += ms;
                    ops.push(Op::Adv { ms });
                }
            }
        }
        // one run in 150: a process that already tracks about as many resources as the storage's warning limit
        let crowd = if rng.chance(1, 150) { *rng.pick(&[9_998u32, 10_000, 10_050]) } else { 0 };
        serde_json::to_value(Scn { epoch_ns, res, rules, ops, crowd }).unwrap()
    }

    fn execute(&self, scenario: &Value, cov: &mut Cov) -> RunResult {
        let sc: Scn = serde_json::from_value(scenario.clone()).expect("C04 scenario");
        let mut w = World::start(sc.epoch_ns);
        let mut tr = Trace::default();
        let viol = run(&sc, &mut w, &mut tr, cov);
        if viol.is_none() {
            w.drain();
        }
        cov.sim_ns += w.sim_ns;
        cov.ops += w.ops;
        RunResult::new(tr.hash(), viol)
    }

    fn shrink(&self, scenario: &Value) -> Vec<Value> {
        let mut out = shrink_ops(scenario);
        let sc: Scn = serde_json::from_value(scenario.clone()).unwrap();
        if sc.crowd > 0 {
            let mut c = sc.clone();
            c.crowd = 0;
            out.push(serde_json::to_value(c).unwrap());
        }
        macro_rules! drop_rules {
            ($f:ident) => {
                for i in 0..sc.rules.$f.len() {
                    let mut c = sc.clone();
                    c.rules.$f.remove(i);
                    out.push(serde_json::to_value(c).unwrap());
                }
            };
        }
        drop_rules!(flow);
        drop_rules!(breaker);
        drop_rules!(hotspot);
        drop_rules!(iso);
        drop_rules!(sys);
        for (i, op) in sc.ops.iter().enumerate() {
            if let Op::Enter { r, n, inb, arg } = op {
                if *n > 1 {
                    let mut c = sc.clone();
                    c.ops[i] = Op::Enter { r: *r, n: 1, inb: *inb, arg: arg.clone() };
                    out.push(serde_json::to_value(c).unwrap());
                }
            }
        }
        out
    }
}

#[derive(Default)]
struct Acct {
    log: RefWin,
    inflight: i64,
}

fn compare(name: &str, t: u64, acct: &Acct, node: &dyn StatNode, ten: &dyn ReadStat, at: usize) -> Option<Violation> {
    for (me, k, label) in [
        (MetricEvent::Pass, K::Pass, "pass"),
        (MetricEvent::Block, K::Block, "block"),
        (MetricEvent::Complete, K::Complete, "complete"),
        (MetricEvent::Rt, K::Rt, "rt"),
    ] {
        let want1 = acct.log.sum(t, 1000, 500, k);
        let got1 = node.sum(me);
        if got1 != want1 {
            return Some(Violation::new(
                format!("C04/account/{}-1s-{}", label, if got1 > want1 { "excess" } else { "missing" }),
                at,
                format!("node {} t={}: sum({}) over 1 s window = {} reference {}", name, t, label, got1, want1),
            ));
        }
        let want10 = acct.log.sum(t, 10_000, 500, k);
        let got10 = ten.sum(me);
        if got10 != want10 {
            return Some(Violation::new(
                format!("C04/account/{}-10s-{}", label, if got10 > want10 { "excess" } else { "missing" }),
                at,
                format!("node {} t={}: sum({}) over 10 s window = {} reference {}", name, t, label, got10, want10),
            ));
        }
    }
    let comp = acct.log.sum(t, 1000, 500, K::Complete);
    let want_avg = if comp == 0 { 0.0 } else { acct.log.sum(t, 1000, 500, K::Rt) as f64 / comp as f64 };
    if (node.avg_rt() - want_avg).abs() > 1e-9 * want_avg.max(1.0) {
        return Some(Violation::new("C04/account/avg-rt", at, format!("node {} t={}: avg_rt {} reference {}", name, t, node.avg_rt(), want_avg)));
    }
    let c = node.current_concurrency() as i64;
    if c != acct.inflight {
        return Some(Violation::new(
            format!("C04/account/inflight-{}", if c > acct.inflight { "excess" } else { "missing" }),
            at,
            format!("node {} t={}: in-flight {} reference {}", name, t, c, acct.inflight),
        ));
    }
    None
}

fn run(sc: &Scn, w: &mut World, tr: &mut Trace, cov: &mut Cov) -> Option<Violation> {
    if sc.crowd > 0 {
        for i in 0..sc.crowd {
            stat::get_or_create_resource_node(&format!("c04_crowd_{}", i), &sentinel_core::base::ResourceType::Common);
        }
        cov.hit("ten_thousand_resources_already_tracked");
    }
    sc.rules.load();
    let mut accts: Vec<Acct> = sc.res.iter().map(|_| Acct::default()).collect();
    let mut inbound = Acct::default();
    let inb_node = stat::inbound_node();
    let inb_ten = inb_node.generate_read_stat(20, 10_000).expect("10 s reader");
    let (mut n_pass, mut n_block, mut n_done) = (0u64, 0u64, 0u64);
    let mut total_batch = 0u64;
    for (i, op) in sc.ops.iter().enumerate() {
        match op {
            Op::Adv { ms } => {
                w.advance(ms * MS);
                tr.word(*ms);
            }
            Op::Enter { r, n, inb, arg } => {
                let r = *r % sc.res.len();
                let obs = w.enter(&sc.res[r], *n, *inb, arg.as_ref().map(|a| vec![a.clone()]), None);
                let t1 = obs.t1_ns / MS;
                total_batch += *n as u64;
                tr.word(obs.admitted as u64);
                if obs.t1_ns != obs.t0_ns {
                    cov.hit("entry_slept_in_throttling");
                }
                if obs.admitted {
                    n_pass += 1;
                    accts[r].log.add(t1, K::Pass, *n as u64);
                    accts[r].inflight += 1;
                    if *inb {
                        inbound.log.add(t1, K::Pass, *n as u64);
                        inbound.inflight += 1;
                    }
                } else {
                    n_block += 1;
                    let b = obs.block.as_ref().unwrap();
                    cov.hit(&format!("blocked_by_{}", b.block_type));
                    tr.str(&b.block_type);
                    accts[r].log.add(t1, K::Block, *n as u64);
                    if *inb {
                        inbound.log.add(t1, K::Block, *n as u64);
                    }
                }
            }
            Op::Exit { k, err } => {
                if let Some(e) = w.exit_nth(*k, *err) {
                    n_done += 1;
                    let r = sc.res.iter().position(|x| *x == e.res).unwrap();
                    let t = w.now_ms();
                    let rt = t - e.start_ms;
                    accts[r].log.add(t, K::Rt, rt);
                    accts[r].log.add(t, K::Complete, e.batch as u64);
                    accts[r].inflight -= 1;
                    if e.inbound {
                        inbound.log.add(t, K::Rt, rt);
                        inbound.log.add(t, K::Complete, e.batch as u64);
                        inbound.inflight -= 1;
                    }
                    tr.word(rt);
                    if rt > 10_000 {
                        cov.hit("entry_held_across_whole_ring");
                    }
                }
            }
        }
        let t = w.now_ms();
        let mut st = 0u64;
        for (r, name) in sc.res.iter().enumerate() {
            match stat::get_resource_node(name) {
                None => {
                    if !accts[r].log.ev.is_empty() {
                        return Some(Violation::new("C04/account/node-missing", i, format!("resource {} has traffic but no node", name)));
                    }
                }
                Some(node) => {
                    let ten = node.generate_read_stat(20, 10_000).expect("10 s reader");
                    if let Some(v) = compare(name, t, &accts[r], &*node, &*ten, i) {
                        return Some(v);
                    }
                    st = st.wrapping_mul(31).wrapping_add(node.sum(MetricEvent::Pass) * 7 + node.sum(MetricEvent::Block) * 3 + node.current_concurrency() as u64);
                }
            }
        }
        if let Some(v) = compare("inbound", t, &inbound, &*inb_node, &*inb_ten, i) {
            let mut v = v;
            v.signature = v.signature.replace("C04/account/", "C04/account/inbound-");
            return Some(v);
        }
        cov.state(st);
        tr.word(t);
    }
    // end of run: exit everything, in-flight must return to 0, pass + block == offered
    w.drain();
    for name in sc.res.iter() {
        if let Some(node) = stat::get_resource_node(name) {
            if node.current_concurrency() != 0 {
                return Some(Violation::new("C04/end/inflight-nonzero", sc.ops.len(), format!("{} in-flight {} after all exits", name, node.current_concurrency())));
            }
        }
    }
    if inb_node.current_concurrency() != 0 {
        return Some(Violation::new("C04/end/inbound-inflight-nonzero", sc.ops.len(), format!("inbound in-flight {} after all exits", inb_node.current_concurrency())));
    }
    let acc: u64 = accts.iter().flat_map(|a| a.log.ev.iter()).filter(|e| e.1 == K::Pass as u8 || e.1 == K::Block as u8).map(|e| e.2).sum();
    if acc != total_batch {
        return Some(Violation::new("C04/end/pass-plus-block", sc.ops.len(), format!("pass+block {} != offered {}", acc, total_batch)));
    }
    cov.add("passed_entries", n_pass);
    cov.add("blocked_entries", n_block);
    cov.add("completed_entries", n_done);
    cov.nontrivial = n_pass > 0 && n_block > 0 && n_done > 0;
    None
}
