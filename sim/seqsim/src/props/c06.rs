//! C06 — hotspot QPS limiting is a per-parameter token bucket with no cross-talk.

use crate::engine::{shrink_ops, Budget, Cov, Prop, RunResult, Violation};
use crate::props::c05::extract;
use crate::rng::{Rng, Trace};
use crate::timegen;
use crate::world::{HotspotSpec, World, MS, SEC};
use sentinel_core::hotspot;
use serde::{Deserialize, Serialize};
use serde_json::{json, Value};
use std::collections::HashMap;

#[derive(Serialize, Deserialize, Clone, Debug)]
#[serde(tag = "t")]
pub enum Op {
    Req { n: u32, args: Option<Vec<String>>, att: Option<Vec<(String, String)>> },
    Adv { ms: u64 },
}

#[derive(Serialize, Deserialize, Clone, Debug)]
pub struct Scn {
    pub epoch_ns: u64,
    pub res: String,
    pub rules: Vec<HotspotSpec>,
    /// observe through Controller::perform_checking (single rule only) instead of EntryBuilder
    pub direct: bool,
    pub ops: Vec<Op>,
}

pub struct C06;

/// conservative reference bucket (DESIGN appendix A.3): tokens arrive in whole-duration steps,
/// the latest any reading of "token bucket with rate q per d and size q+b" can deliver them
#[derive(Default, Clone, Debug)]
struct Bucket {
    first: Option<u64>,
    tokens: u64,
    last: u64,
    admitted_total: u64,
}

#[derive(PartialEq, Clone, Copy, Debug)]
enum RuleOutcome {
    Admit,
    Reject,
    NotConsulted,
}

impl Prop for C06 {
    fn id(&self) -> &'static str {
        "C06"
    }
    fn gap_ns(&self) -> u64 {
        7_200 * SEC
    }
    fn budget(&self, thorough: bool) -> Budget {
        if thorough {
            Budget { runs: 250_000, wall_s: 240 }
        } else {
            Budget { runs: 5_000, wall_s: 30 }
        }
    }
    fn rule_text(&self) -> &'static str {
        "seeded scenarios on one resource: 1-2 hotspot QPS/reject rules (q 0..8, burst 0..5, d 1..3 s, per-value overrides, positional incl. negative index or keyed parameter, capacity >= distinct values), 20-80 requests/advances with gaps 0 .. several d incl. exactly d and d+1 ms, batch 1..k, 1-4 distinct values; observed through EntryBuilder (rule-level outcomes derived from the named rule and the live controller order) or Controller::perform_checking. Oracles: stated upper bound per value, rejection only with insufficient tokens of a conservative reference bucket, per-value overrides, and for single-rule scenarios a second execution projected onto one value whose decisions must be identical (no cross-talk). Non-trivial = an admission, a rejection and a refill; distinct = distinct trace hash."
    }
    fn components(&self) -> Value {
        json!({"real": ["sentinel-core: EntryBuilder, slot chain, hotspot manager/slot, RejectChecker, LRU counter caches"],
               "stub": ["clock (virtual, hook H1)", "getrandom (seeded)", "logger (a sink that formats every record of the library and discards it)"]})
    }

    fn generate(&self, rng: &mut Rng, slot_ns: u64, _avoid: bool) -> Value {
        let epoch_ns = slot_ns + timegen::phase_ns(rng, 20_000);
        let res = format!("c06_{:x}", rng.below(0xffffff));
        // one scenario in three: the empty string is one of the parameter values (a legal value like any other)
        let values = if rng.chance(1, 3) { ["v1", "", "v3", "v4"] } else { ["v1", "v2", "v3", "v4"] };
        let nvals = rng.range(1, 4) as usize;
        let nrules = if rng.chance(1, 4) { 2 } else { 1 };
        let mut rules: Vec<HotspotSpec> = vec![];
        for j in 0..nrules {
            let keyed = rng.chance(1, 4);
            let mut specific = vec![];
            for v in &values[..nvals] {
                if rng.chance(1, 4) {
                    specific.push((v.to_string(), rng.range(0, 6)));
                }
            }
            let h = HotspotSpec {
                id: format!("q{}_{:x}", j, rng.below(0xffff)),
                res: res.clone(),
                metric: 1,
                ctrl: 0,
                index: if keyed { 0 } else { *rng.pick(&[0i64, 0, 1, -1]) },
                key: if keyed { "k1".into() } else { String::new() },
                threshold: if rng.chance(1, 10) { 0 } else { rng.range(1, 8) },
                max_queue_ms: 0,
                burst: *rng.pick(&[0u64, 0, 1, 2, 5]),
                duration_s: rng.range(1, 3),
                capacity: *rng.pick(&[0usize, 4, 8, 100]),
                specific,
            };
            if rules.iter().any(|x| x.rule() == h.rule()) {
                continue;
            }
            rules.push(h);
        }
        let direct = rules.len() == 1 && rng.chance(1, 3);
        let nops = rng.range(20, 80);
        let maxbatch = *rng.pick(&[1u64, 1, 2, 3]);
        let mut ops = vec![];
        let mut now_ms = epoch_ns / MS;
        let w_adv = rng.range(2, 8);
        for _ in 0..nops {
            if rng.weighted(&[8, w_adv]) == 0 {
                let len = rng.range(1, 2);
                let args = if rng.chance(1, 12) { None } else { Some((0..len).map(|_| values[rng.below(nvals as u64) as usize].to_string()).collect()) };
                let att = if rng.chance(1, 4) { Some(vec![("k1".to_string(), values[rng.below(nvals as u64) as usize].to_string())]) } else { None };
                ops.push(Op::Req { n: rng.range(1, maxbatch) as u32, args, att });
            } else {
                let d = rng.pick(&rules).duration_s * 1000;
                let mut ms = match rng.below(9) {
                    0 => d,
                    1 => d + 1,
                    2 => d - 1,
                    3 => d / 2,
                    4 => 2 * d + 1,
                    5 => rng.range(0, 50),
                    6 => rng.range(0, 3 * d),
                    7 => d / rng.range(2, 8),
                    _ => timegen::dt_ms(rng, now_ms, d, d),
                };
                let left = (epoch_ns / MS + 2_400_000).saturating_sub(now_ms);
                if ms > left {
                    ms = left;
                }
                now_ms += ms;
                ops.push(Op::Adv { ms });
            }
        }
        serde_json::to_value(Scn { epoch_ns, res, rules, direct, ops }).unwrap()
    }

    fn execute(&self, scenario: &Value, cov: &mut Cov) -> RunResult {
        let sc: Scn = serde_json::from_value(scenario.clone()).expect("C06 scenario");
        let mut tr = Trace::default();
        let mut w = World::start(sc.epoch_ns);
        let r = run(&sc, &mut w, &mut tr, cov, true);
        w.drain();
        cov.sim_ns += w.sim_ns;
        cov.ops += w.ops;
        let decisions = match r {
            Err(v) => return RunResult::new(tr.hash(), Some(v)),
            Ok(d) => d,
        };
        // (c) no cross-talk: project onto one value and re-execute 50 simulated minutes later
        if sc.rules.len() == 1 {
            let rule = &sc.rules[0];
            let mut vals: Vec<String> = decisions.iter().filter_map(|d| d.0.clone()).collect();
            vals.sort();
            vals.dedup();
            if vals.len() > 1 {
                // the value is chosen by the scenario (hash of its seed), not by a PRNG draw
                let pick = (scenario["run_seed"].as_u64().unwrap_or(0) % vals.len() as u64) as usize;
                let keep = vals[pick].clone();
                let mut psc = sc.clone();
                psc.epoch_ns = sc.epoch_ns + 3_000 * SEC;
                psc.res = format!("{}_p", sc.res);
                psc.rules[0].res = psc.res.clone();
                psc.ops = sc
                    .ops
                    .iter()
                    .filter(|op| match op {
                        Op::Req { args, att, .. } => extract(rule, args, att).as_deref() == Some(keep.as_str()),
                        Op::Adv { .. } => true,
                    })
                    .cloned()
                    .collect();
                let mut w2 = World::start(psc.epoch_ns);
                let mut tr2 = Trace::default();
                let mut cov2 = Cov::default();
                let r2 = run(&psc, &mut w2, &mut tr2, &mut cov2, false);
                w2.drain();
                cov.sim_ns += w2.sim_ns;
                cov.ops += w2.ops;
                cov.hit("projection_runs");
                match r2 {
                    Err(v) => {
                        return RunResult { rewrite: None, trace_hash: tr.hash(), violation: Some(Violation::new(format!("{}/in-projection", v.signature), 0, v.detail)) };
                    }
                    Ok(d2) => {
                        let full: Vec<bool> = decisions.iter().filter(|d| d.0.as_deref() == Some(keep.as_str())).map(|d| d.1).collect();
                        let proj: Vec<bool> = d2.iter().map(|d| d.1).collect();
                        if full != proj {
                            let at = full.iter().zip(proj.iter()).position(|(a, b)| a != b).unwrap_or(full.len().min(proj.len()));
                            return RunResult {
 rewrite: None,
                                trace_hash: tr.hash(),
                                violation: Some(Violation::new(
                                    "C06/crosstalk/decisions-differ",
                                    at,
                                    format!("value {}: decisions with other values present {:?}, alone {:?}", keep, full, proj),
                                )),
                            };
                        }
                    }
                }
            }
        }
        RunResult::new(tr.hash(), None)
    }

    fn shrink(&self, scenario: &Value) -> Vec<Value> {
        let mut out = shrink_ops(scenario);
        let sc: Scn = serde_json::from_value(scenario.clone()).unwrap();
        if sc.rules.len() > 1 {
            for i in 0..sc.rules.len() {
                let mut c = sc.clone();
                c.rules.remove(i);
                out.push(serde_json::to_value(c).unwrap());
            }
        }
        for (i, op) in sc.ops.iter().enumerate() {
            if let Op::Req { n, args, att } = op {
                if *n > 1 {
                    let mut c = sc.clone();
                    c.ops[i] = Op::Req { n: 1, args: args.clone(), att: att.clone() };
                    out.push(serde_json::to_value(c).unwrap());
                }
            }
        }
        out
    }
}

/// returns per request: (value extracted by rule 0, admitted overall)
fn run(sc: &Scn, w: &mut World, tr: &mut Trace, cov: &mut Cov, count: bool) -> Result<Vec<(Option<String>, bool)>, Violation> {
    hotspot::load_rules(sc.rules.iter().map(|r| r.rule()).collect());
    let live = hotspot::get_traffic_controller_list_for(&sc.res);
    if live.len() != sc.rules.len() {
        return Err(Violation::new("C06/load/controller-count", 0, format!("{} rules, {} controllers", sc.rules.len(), live.len())));
    }
    // rules in the order in which the slot consults them
    let order: Vec<usize> = live.iter().map(|tc| sc.rules.iter().position(|r| r.id == tc.rule().id).expect("unknown controller")).collect();
    let mut buckets: Vec<HashMap<String, Bucket>> = sc.rules.iter().map(|_| HashMap::new()).collect();
    let mut decisions = vec![];
    let (mut n_adm, mut n_rej, mut n_refill) = (0u64, 0u64, 0u64);
    for (i, op) in sc.ops.iter().enumerate() {
        match op {
            Op::Adv { ms } => {
                w.advance(ms * MS);
                tr.word(*ms);
            }
            Op::Req { n, args, att } => {
                let t = w.now_ms();
                let vals: Vec<Option<String>> = sc.rules.iter().map(|r| extract(r, args, att)).collect();
                // observe
                let (admitted, block) = if sc.direct {
                    w.ops += 1;
                    match &vals[0] {
                        None => (true, None),
                        Some(v) => match live[0].perform_checking(v.clone(), *n) {
                            sentinel_core::base::TokenResult::Pass => (true, None),
                            sentinel_core::base::TokenResult::Blocked(e) => (false, Some(crate::world::parse_block(&format!("TokenResult::Blocked: {:?}", e)))),
                            sentinel_core::base::TokenResult::Wait(x) => {
                                return Err(Violation::new("C06/reject-rule-returned-wait", i, format!("wait {}", x)));
                            }
                        },
                    }
                } else {
                    let obs = w.enter(&sc.res, *n, false, args.clone(), att.clone());
                    if obs.t0_ns != obs.t1_ns {
                        return Err(Violation::new("C06/clock-moved", i, "reject rule made the caller wait"));
                    }
                    if obs.admitted {
                        w.exit_nth(w.open.len() - 1, false);
                    }
                    (obs.admitted, obs.block)
                };
                tr.word(admitted as u64);
                decisions.push((vals[0].clone(), admitted));
                if admitted {
                    n_adm += 1;
                } else {
                    n_rej += 1;
                }
                // rule-level outcomes
                let mut outcome = vec![RuleOutcome::NotConsulted; sc.rules.len()];
                if admitted {
                    for ri in 0..sc.rules.len() {
                        outcome[ri] = if vals[ri].is_some() { RuleOutcome::Admit } else { RuleOutcome::NotConsulted };
                    }
                } else {
                    let b = block.as_ref().unwrap();
                    tr.str(b.rule_id.as_deref().unwrap_or("-"));
                    if b.block_type != "HotSpotParamFlow" {
                        return Err(Violation::new("C06/report/block-type", i, b.text.clone()));
                    }
                    let named = match b.rule_id.as_ref().and_then(|id| sc.rules.iter().position(|r| &r.id == id)) {
                        Some(x) => x,
                        None => return Err(Violation::new("C06/report/no-rule-named", i, b.text.clone())),
                    };
                    if vals[named].is_none() {
                        return Err(Violation::new("C06/report/rule-without-parameter", i, b.text.clone()));
                    }
                    for ri in order.iter() {
                        if *ri == named {
                            outcome[*ri] = RuleOutcome::Reject;
                            break;
                        }
                        outcome[*ri] = if vals[*ri].is_some() { RuleOutcome::Admit } else { RuleOutcome::NotConsulted };
                    }
                }
                for ri in 0..sc.rules.len() {
                    if outcome[ri] == RuleOutcome::NotConsulted {
                        continue;
                    }
                    let rule = &sc.rules[ri];
                    let v = vals[ri].clone().unwrap();
                    let q = rule.threshold_for(&v);
                    if count && rule.specific.iter().any(|(k, _)| *k == v) {
                        cov.hit("override_applied");
                    }
                    let max = q + rule.burst;
                    let d_ms = rule.duration_s * 1000;
                    let b = buckets[ri].entry(v.clone()).or_default();
                    let obs_admit = outcome[ri] == RuleOutcome::Admit;
                    let n64 = *n as u64;
                    let mut refill = false;
                    let avail = match b.first {
                        None => max,
                        Some(_) => {
                            if t - b.last > d_ms {
                                refill = true;
                                (b.tokens + (t - b.last) * q / d_ms).min(max)
                            } else {
                                if count && t - b.last == d_ms {
                                    cov.hit("arrival_exactly_one_duration_after_refill");
                                }
                                b.tokens
                            }
                        }
                    };
                    if count && refill && t - b.last == d_ms + 1 {
                        cov.hit("arrival_one_ms_after_duration");
                    }
                    let must_admit = q > 0 && n64 <= max && n64 <= avail;
                    if q == 0 && obs_admit {
                        return Err(Violation::new("C06/admit/threshold-zero-admitted", i, format!("rule {} value {}: threshold 0 but admitted", rule.id, v)));
                    }
                    if must_admit && !obs_admit {
                        return Err(Violation::new(
                            "C06/reject/rejected-with-sufficient-tokens",
                            i,
                            format!("t={} rule {} value {} n={}: reference bucket holds {} (q={} burst={} d={} ms, last refill {} ms ago)", t, rule.id, v, n, avail, q, rule.burst, d_ms, t - b.last),
                        ));
                    }
                    if obs_admit {
                        if b.first.is_none() {
                            b.first = Some(t);
                            b.last = t;
                        } else if refill {
                            b.last = t;
                            n_refill += 1;
                        }
                        b.tokens = avail.saturating_sub(n64);
                        b.admitted_total += n64;
                        // (a) stated upper bound: admitted <= q + b + q*(t-first)/d
                        let first = b.first.unwrap();
                        let lhs = b.admitted_total as u128 * d_ms as u128;
                        let rhs = (q + rule.burst) as u128 * d_ms as u128 + q as u128 * (t - first) as u128;
                        if lhs > rhs {
                            return Err(Violation::new(
                                "C06/bound/admitted-exceeds-token-bucket-bound",
                                i,
                                format!("t={} rule {} value {}: admitted {} tokens since first request {} ms ago; bound q+b+q*(t-first)/d = {}", t, rule.id, v, b.admitted_total, t - first, rhs as f64 / d_ms as f64),
                            ));
                        }
                    }
                }
                if count {
                    cov.state(buckets.iter().flat_map(|m| m.values()).fold(0u64, |a, b| a.wrapping_mul(31).wrapping_add(b.tokens)));
                }
            }
        }
        tr.word(w.now_ms());
    }
    if count {
        cov.add("admitted", n_adm);
        cov.add("rejected", n_rej);
        cov.add("refills", n_refill);
        cov.nontrivial = n_adm > 0 && n_rej > 0 && n_refill > 0;
    }
    Ok(decisions)
}
