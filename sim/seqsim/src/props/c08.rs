//! C08 — warm-up ramps from threshold/coldFactor up to threshold, and cools when idle.

use crate::engine::{Budget, Cov, Prop, RunResult, Violation};
use crate::rng::{Rng, Trace};
use crate::world::{FlowSpec, World, MS, SEC};
use sentinel_core::flow;
use serde::{Deserialize, Serialize};
use serde_json::{json, Value};

#[derive(Serialize, Deserialize, Clone, Debug)]
pub struct Phase {
    /// 0 saturating (offered >= 1.3 q per second), 1 offered about q/c, 2 offered about q/(2c), 3 idle
    /// 4 = exactly `count` arrivals in each second (steering: the drains since the cold start are chosen so that the
    /// token bucket lands exactly on the warning line before an idle gap)
    pub kind: u8,
    pub secs: u32,
    #[serde(default)]
    pub count: u32,
}

#[derive(Serialize, Deserialize, Clone, Debug)]
pub struct Scn {
    pub epoch_ns: u64,
    pub res: String,
    pub q: u32,
    pub c: u32,
    pub p: u32,
    pub grid_ms: u32,
    pub offset_ms: u32,
    pub ops: Vec<Phase>,
}

pub struct C08;

const EPS: f64 = 0.03;

impl Prop for C08 {
    fn id(&self) -> &'static str {
        "C08"
    }
    fn gap_ns(&self) -> u64 {
        3_600 * SEC
    }
    fn budget(&self, thorough: bool) -> Budget {
        if thorough {
            Budget { runs: 20_000, wall_s: 420 }
        } else {
            Budget { runs: 480, wall_s: 40 }
        }
    }
    fn rule_text(&self) -> &'static str {
        "seeded scenarios: one warm-up/reject flow rule (q 30..500 with q >= 10c, c in {0 (default 3), 2..6}, p 1..20 s, default 1 s window), 40-200 simulated seconds of single-token arrivals on a 1..20 ms grid through demand phases {saturating, about q/c, about q/2c, idle 0..5p s}; every arrival is a real EntryBuilder::build(). Trajectory oracles: <= q per bucket-aligned 1 s window always; under saturation >= floor(q/c)(1-3%)-2 per second, allowance (read through Calculator::calculate_allowed_threshold once per second) non-decreasing and = q within 2p+2 s; first saturating second of the run and after an idle gap >= 2p within [floor(q/c)(1-3%)-2, ceil(q/c)(1+3%)+2]. Non-trivial = run contains a saturating phase long enough to reach q and a cold restart after idle; distinct = distinct trace hash (per-second admissions)."
    }
    fn components(&self) -> Value {
        json!({"real": ["sentinel-core: EntryBuilder, slot chain, flow manager/slot, WarmUpCalculator, RejectChecker, resource node sliding window"],
               "stub": ["clock (virtual, hook H1)", "getrandom (seeded)", "logger (a sink that formats every record of the library and discards it)"]})
    }

    fn generate(&self, rng: &mut Rng, slot_ns: u64, _avoid: bool) -> Value {
        let c = *rng.pick(&[0u32, 2, 3, 4, 5, 6]);
        let ceff = if c == 0 { 3 } else { c };
        let q = loop {
            let q = match rng.below(4) {
                0 => *rng.pick(&[30u32, 60, 100, 200, 500]),
                _ => rng.range(30, 500) as u32,
            };
            if q >= 10 * ceff {
                break q;
            }
        };
        let p = match rng.below(3) {
            0 => rng.range(1, 3),
            1 => rng.range(1, 8),
            _ => rng.range(1, 20),
        } as u32;
        let gmax = ((1000.0 / (1.3 * q as f64)).floor() as u64).clamp(1, 20);
        let grid_ms = rng.range(1, gmax) as u32;
        let offset_ms = rng.below(grid_ms as u64) as u32;
        let mut ops = vec![];
        let mut total = 0u32;
        // One run in three starts with a steered drain: from the cold start (bucket full) exactly max - warning tokens
        // are admitted, floor(q/c) or more per second (so that nothing is refilled), then a single request makes the
        // last drain happen and an idle gap follows: the bucket sits exactly on the warning line when traffic stops.
        // (Steering only: the token arithmetic is the documented one; whether the line was hit is a reach probe.)
        if rng.chance(1, 3) {
            let f = (q / ceff) as u64;
            let d = 2 * (p as f64 * q as f64 / (ceff + 1) as f64) as u64;
            if f >= 1 && d >= 2 * f && d / f - 1 <= 60 {
                let m = d / f - 1;
                for _ in 0..m {
                    ops.push(Phase { kind: 4, secs: 1, count: f as u32 });
                }
                ops.push(Phase { kind: 4, secs: 1, count: (d - m * f) as u32 });
                ops.push(Phase { kind: 4, secs: 1, count: 1 });
                ops.push(Phase { kind: 3, secs: 2 * p + *rng.pick(&[0u32, 1, p]), count: 0 });
                ops.push(Phase { kind: 0, secs: rng.range(2, (2 * p + 3) as u64) as u32, count: 0 });
                total += m as u32 + 2 + 2 * p + 2;
            }
        }
        // then always saturation long enough to reach q
        let first = 2 * p + 2 + rng.range(0, 5) as u32;
        ops.push(Phase { kind: 0, secs: first, count: 0 });
        total += first;
        while total < 200 && ops.len() < 8 {
            let kind = *rng.pick(&[0u8, 0, 1, 2, 3, 3]);
            let secs = match kind {
                3 => *rng.pick(&[0u32, 1, p, 2 * p - 1, 2 * p, 2 * p + 1, 3 * p, 5 * p]),
                0 => rng.range(1, (2 * p + 4) as u64) as u32,
                _ => rng.range(1, (p + 3) as u64) as u32,
            };
            ops.push(Phase { kind, secs, count: 0 });
            total += secs;
            if total >= 40 && rng.chance(1, 3) {
                break;
            }
        }
        // finish with saturation so that a preceding idle gap is observed
        ops.push(Phase { kind: 0, secs: rng.range(2, (2 * p + 3) as u64) as u32, count: 0 });
        let epoch_ns = slot_ns - slot_ns % SEC + rng.below(600) * SEC; // whole second
        serde_json::to_value(Scn { epoch_ns, res: format!("c08_{:x}", rng.below(0xffffff)), q, c, p, grid_ms, offset_ms, ops }).unwrap()
    }

    fn execute(&self, scenario: &Value, cov: &mut Cov) -> RunResult {
        let sc: Scn = serde_json::from_value(scenario.clone()).expect("C08 scenario");
        let mut w = World::start(sc.epoch_ns);
        let mut tr = Trace::default();
        let viol = run(&sc, &mut w, &mut tr, cov);
        w.drain();
        cov.sim_ns += w.sim_ns;
        cov.ops += w.ops;
        RunResult::new(tr.hash(), viol)
    }

    fn shrink(&self, scenario: &Value) -> Vec<Value> {
        let sc: Scn = serde_json::from_value(scenario.clone()).unwrap();
        let mut out = vec![];
        for i in (0..sc.ops.len()).rev() {
            let mut c = sc.clone();
            c.ops.remove(i);
            if !c.ops.is_empty() {
                out.push(serde_json::to_value(c).unwrap());
            }
        }
        for i in 0..sc.ops.len() {
            if sc.ops[i].secs > 1 {
                let mut c = sc.clone();
                c.ops[i].secs /= 2;
                out.push(serde_json::to_value(c).unwrap());
            }
        }
        out
    }
}

fn run(sc: &Scn, w: &mut World, tr: &mut Trace, cov: &mut Cov) -> Option<Violation> {
    let rule = FlowSpec { calc: 1, warm_period: sc.p, warm_cold: sc.c, ..FlowSpec::reject("warm", &sc.res, sc.q as f64, 0) };
    flow::load_rules(vec![rule.rule()]);
    let tc = match flow::get_traffic_controller_list_for(&sc.res).into_iter().next() {
        Some(t) => t,
        None => return Some(Violation::new("C08/load/no-controller", 0, format!("valid rule {:?} has no controller", rule))),
    };
    let q = sc.q as f64;
    let ceff = if sc.c == 0 { 3 } else { sc.c } as f64;
    let floor_qc = (q / ceff).floor();
    let ceil_qc = (q / ceff).ceil();
    let lower = floor_qc * (1.0 - EPS) - 2.0;
    let cold_upper = ceil_qc * (1.0 + EPS) + 2.0;
    let g = sc.grid_ms as u64;
    let start_ms = sc.epoch_ns / MS;
    debug_assert!(start_ms % 1000 == 0);
    // per half-second bucket admissions (for the <= q bound)
    let mut buckets: Vec<u64> = vec![];
    let mut sec_index = 0u64; // seconds since start
    let mut idle_run_secs = 0u32; // consecutive idle seconds before the current phase
    let mut sat_run = 0u32; // consecutive saturating seconds so far
    let mut prev_allow: Option<f64> = None;
    let mut reached_q = false;
    let mut cold_restart_checked = false;
    let mut first_sat_second_of_run = true;
    let mut steered_admitted = 0u64;
    let steer_total: u64 = sc.ops.iter().filter(|p| p.kind == 4 && p.count != 1).map(|p| p.count as u64).sum();
    for (pi, ph) in sc.ops.iter().enumerate() {
        if ph.kind == 3 {
            // idle seconds are part of the time line of half-second buckets (the window oracle looks at adjacent halves)
            for _ in 0..(2 * ph.secs).min(4) {
                buckets.push(0);
            }
            sec_index += ph.secs as u64;
            idle_run_secs += ph.secs;
            sat_run = 0;
            prev_allow = None;
            w.ops += 1;
            continue;
        }
        // arrival stride in grid steps for the non-saturating profiles
        let target = match ph.kind {
            0 => f64::INFINITY,
            1 => q / ceff,
            _ => q / (2.0 * ceff),
        };
        let stride = if ph.kind == 0 { 1 } else { ((1000.0 / g as f64) / target).ceil().max(1.0) as u64 };
        for s in 0..ph.secs {
            let sec_start = start_ms + sec_index * 1000;
            // move the clock to the first arrival of this second
            let first_arrival = sec_start + sc.offset_ms as u64;
            let now = w.now_ms();
            if first_arrival > now {
                w.advance((first_arrival - now) * MS);
            }
            // allowance for this second (idempotent within a second)
            let allow = tc.get_calculator().lock().unwrap().calculate_allowed_threshold(1, 0);
            if allow > q * (1.0 + 1e-9) {
                return Some(Violation::new("C08/allowance/above-threshold", pi, format!("second {}: allowance {} > q {}", sec_index, allow, q)));
            }
            let mut admitted = 0u64;
            let mut half = [0u64; 2];
            let mut k = 0u64;
            let mut t = first_arrival;
            while t < sec_start + 1000 {
                if (ph.kind != 4 && k % stride == 0) || (ph.kind == 4 && k < ph.count as u64) {
                    let now = w.now_ms();
                    if t > now {
                        w.advance((t - now) * MS);
                    }
                    let obs = w.enter(&sc.res, 1, false, None, None);
                    if obs.admitted {
                        w.exit_nth(0, false);
                        admitted += 1;
                        half[((t - sec_start) / 500) as usize] += 1;
                    } else if let Some(b) = &obs.block {
                        if b.block_type != "Flow" {
                            return Some(Violation::new("C08/report/block-type", pi, b.text.clone()));
                        }
                    }
                }
                k += 1;
                t += g;
            }
            buckets.push(half[0]);
            buckets.push(half[1]);
            if std::env::var("VERIF_DEBUG_C08").is_ok() {
                eprintln!("C08DBG second {} kind {} allow {} admitted {} half {:?}", sec_index, ph.kind, allow, admitted, half);
            }
            tr.word(admitted);
            tr.word(allow.to_bits());
            cov.state(admitted * 1000 + (allow as u64));
            // always: no bucket-aligned 1 s window above q
            let nb = buckets.len();
            for wnd in [nb.saturating_sub(3), nb.saturating_sub(2)] {
                if wnd + 1 < nb {
                    let sum = buckets[wnd] + buckets[wnd + 1];
                    if sum as f64 > q {
                        return Some(Violation::new("C08/bound/more-than-threshold-per-window", pi, format!("second {}: {} admitted in a bucket-aligned 1 s window, q = {}", sec_index, sum, q)));
                    }
                }
            }
            if ph.kind == 0 {
                // saturating second
                if (admitted as f64) < lower {
                    return Some(Violation::new(
                        "C08/saturating/less-than-floor",
                        pi,
                        format!("second {} (saturating, allowance {}): admitted {} < about q/c = {} (q={} c={} p={})", sec_index, allow, admitted, floor_qc, sc.q, ceff, sc.p),
                    ));
                }
                if let Some(pa) = prev_allow {
                    if allow < pa * (1.0 - 1e-12) {
                        return Some(Violation::new(
                            "C08/saturating/allowance-decreased",
                            pi,
                            format!("second {}: allowance fell from {} to {} while demand stayed saturating (q={} c={} p={})", sec_index, pa, allow, sc.q, ceff, sc.p),
                        ));
                    }
                }
                let cold_expected = sat_run == 0 && (first_sat_second_of_run || idle_run_secs >= 2 * sc.p);
                if cold_expected {
                    if admitted as f64 > cold_upper {
                        return Some(Violation::new(
                            if first_sat_second_of_run { "C08/cold/start-not-cold" } else { "C08/cold/not-cold-again-after-idle" },
                            pi,
                            format!("second {}: admitted {} in the first second (idle {} s >= 2p = {}), cold allowance is about {} (q={} c={} p={})", sec_index, admitted, idle_run_secs, 2 * sc.p, ceil_qc, sc.q, ceff, sc.p),
                        ));
                    }
                    if !first_sat_second_of_run {
                        cold_restart_checked = true;
                        cov.hit("cold_again_after_idle_checked");
                    } else {
                        cov.hit("cold_start_checked");
                    }
                }
                sat_run += 1;
                if allow >= q * (1.0 - 1e-9) {
                    if !reached_q {
                        cov.hit("reached_full_threshold");
                    }
                    reached_q = true;
                } else if sat_run > 2 * sc.p + 2 {
                    return Some(Violation::new(
                        "C08/saturating/threshold-not-reached-in-time",
                        pi,
                        format!("after {} saturating seconds allowance is {} < q = {} (bound 2p+2 = {}) (c={} p={})", sat_run, allow, sc.q, 2 * sc.p + 2, ceff, sc.p),
                    ));
                }
                prev_allow = Some(allow);
                first_sat_second_of_run = false;
                cov.hit("saturating_seconds");
            } else {
                sat_run = 0;
                prev_allow = None;
                if ph.kind == 4 {
                    // the steered drain replaces the cold start of the run: the next saturating second after the idle
                    // gap is a cold *re*start
                    first_sat_second_of_run = false;
                    steered_admitted += admitted;
                    if ph.count == 1 && admitted == 1 && steered_admitted == steer_total + 1 && allow >= q * (1.0 - 1e-9) {
                        cov.hit("idle_gap_begins_with_the_bucket_on_the_warning_line");
                    }
                }
                cov.hit(if ph.kind == 1 { "seconds_at_floor_rate" } else if ph.kind == 4 { "seconds_of_steered_drain" } else { "seconds_below_floor_rate" });
            }
            idle_run_secs = 0;
            sec_index += 1;
            let _ = s;
        }
    }
    cov.nontrivial = reached_q && cold_restart_checked;
    None
}
