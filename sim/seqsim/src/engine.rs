//! Engine SEQ: seeded batches of scenarios, one pristine OS thread per run inside worker
//! processes, confirmation of every failing scenario in a newly started process, minimisation,
//! replay files, known findings, evidence.

use crate::rng::{fnv1a, splitmix64, Rng};
use crate::seams::{self, vc};
use crate::world::{self, BASE_NS};
use serde::{Deserialize, Serialize};
use serde_json::{json, Value};
use std::collections::{BTreeMap, BTreeSet};
use std::io::{BufRead, BufReader, Write};
use std::process::{Command, Stdio};
use std::sync::mpsc;
use std::time::{Duration, Instant};

pub const DEFAULT_SEED: u64 = 20260923;

#[derive(Serialize, Deserialize, Clone, Debug)]
pub struct Violation {
    pub signature: String,
    pub at_op: i64,
    pub detail: String,
}

impl Violation {
    pub fn new(sig: impl Into<String>, at_op: usize, detail: impl Into<String>) -> Violation {
        Violation {
            signature: sig.into(),
            at_op: at_op as i64,
            detail: detail.into(),
        }
    }
}

/// Coverage collected by a run: named counters (fault kinds that actually fired, reach probes),
/// simulated time, operations.
#[derive(Default, Clone, Debug, Serialize, Deserialize)]
pub struct Cov {
    pub counters: BTreeMap<String, u64>,
    pub sim_ns: u64,
    pub ops: u64,
    /// run is non-trivial by the property's stated rule
    pub nontrivial: bool,
    /// hashes of abstract (reference-model) states seen after operations
    #[serde(skip)]
    pub states: BTreeSet<u64>,
}

impl Cov {
    #[inline]
    pub fn hit(&mut self, name: &str) {
        *self.counters.entry(name.to_string()).or_insert(0) += 1;
    }
    #[inline]
    pub fn add(&mut self, name: &str, n: u64) {
        *self.counters.entry(name.to_string()).or_insert(0) += n;
    }
    #[inline]
    pub fn state(&mut self, h: u64) {
        if self.states.len() < 4096 {
            self.states.insert(h);
        }
    }
    fn merge(&mut self, o: &Cov) {
        for (k, v) in &o.counters {
            *self.counters.entry(k.clone()).or_insert(0) += v;
        }
        self.sim_ns += o.sim_ns;
        self.ops += o.ops;
    }
}

pub struct RunResult {
    pub trace_hash: u64,
    pub violation: Option<Violation>,
    /// an equivalent scenario better suited to minimisation (engine SCHED: the same program with
    /// the schedule rewritten as default policy + explicit preemptions)
    pub rewrite: Option<Value>,
}

impl RunResult {
    pub fn new(trace_hash: u64, violation: Option<Violation>) -> RunResult {
        RunResult { trace_hash, violation, rewrite: None }
    }
}

pub struct Budget {
    pub runs: u64,
    pub wall_s: u64,
}

pub trait Prop: Sync {
    fn id(&self) -> &'static str;
    /// size of one epoch slot: longer than the longest simulated span of a run plus the 10 s ring
    fn gap_ns(&self) -> u64;
    fn budget(&self, thorough: bool) -> Budget;
    /// evidence level claimed
    fn level(&self) -> &'static str {
        "exploration"
    }
    fn rule_text(&self) -> &'static str;
    fn components(&self) -> Value;
    /// Turn a seed into an explicit scenario. `slot_ns` = start of this run's epoch slot.
    /// `avoid_known` asks the generator to stay away from configurations listed as known findings.
    fn generate(&self, rng: &mut Rng, slot_ns: u64, avoid_known: bool) -> Value;
    /// Execute a scenario against the real code. Pure function of scenario + code under test.
    fn execute(&self, scenario: &Value, cov: &mut Cov) -> RunResult;
    /// Smaller variants of a failing scenario, most aggressive first.
    fn shrink(&self, scenario: &Value) -> Vec<Value>;
    /// one process per run (properties that alter what a process-wide structure looks like)
    fn process_per_run(&self) -> bool {
        false
    }
    /// extra per-worker warm-up (e.g. metric-log statics)
    fn extra_warm_up(&self) {}
    /// "seq" or "sched" (recorded in replay files; selects the binary that replays them)
    fn engine(&self) -> &'static str {
        "seq"
    }
    /// engine SCHED: statics are re-initialised per execution by the scheduler runtime, so the
    /// worker performs no warm-up (and must not touch the code under test outside an execution)
    fn needs_warm_up(&self) -> bool {
        true
    }
    /// wall-clock watchdog per run in a batch (a confirmation in a new process gets twenty times as much, at least 20 min)
    fn watchdog_s(&self) -> u64 {
        60
    }
    /// CPU-time watchdog per run: a run thread that has burnt this much CPU time is spinning (runs
    /// take milliseconds). Unlike the wall-clock watchdog it does not depend on machine load, so it
    /// applies unchanged to confirmations and minimisation candidates.
    fn cpu_limit_s(&self) -> u64 {
        20
    }
    /// a feature of the scenario that narrows violation signatures (engine SCHED: which callbacks are installed)
    fn qualifier(&self, _scenario: &Value) -> String {
        String::new()
    }
    /// classify a panic of the code under test (engine SCHED recognises the runtime's deadlock verdict)
    fn classify_panic(&self, loc: &str, msg: &str) -> String {
        let _ = msg;
        format!("{}/panic@{}", self.id(), loc)
    }
}

pub fn run_seed(verif_seed: u64, prop: &str, idx: u64) -> u64 {
    splitmix64(verif_seed ^ fnv1a(prop.as_bytes()) ^ idx.wrapping_mul(0x9E3779B97F4A7C15))
}

pub fn slot_ns(prop: &dyn Prop, idx: u64) -> u64 {
    // slot 0 is used by the warm-up; the clock must stay below i64::MAX ns (year 2262), the code
    // under test converts nanoseconds to i64
    let s = BASE_NS as u128 + (idx as u128 + 2) * prop.gap_ns() as u128;
    assert!(s < 9_000_000_000_000_000_000u128, "HARNESS: run index {} beyond the representable virtual time", idx);
    BASE_NS + (idx + 1) * prop.gap_ns()
}

pub fn make_scenario(prop: &dyn Prop, verif_seed: u64, idx: u64, known_for_prop: bool) -> Value {
    let rs = run_seed(verif_seed, prop.id(), idx);
    let mut rng = Rng::new(rs);
    let avoid = known_for_prop && idx % 2 == 0;
    let mut sc = prop.generate(&mut rng, slot_ns(prop, idx), avoid);
    let o = sc.as_object_mut().expect("scenario must be an object");
    o.insert("run_seed".into(), json!(rs));
    o.insert("avoid_known".into(), json!(avoid));
    if !o.contains_key("env_seed") {
        o.insert("env_seed".into(), json!(splitmix64(rs ^ 0xE5E5)));
    }
    sc
}

/// Executes one scenario on a new OS thread (fresh RandomState keys taken from the scenario's
/// env seed, fresh thread-local configuration). Returns None on watchdog timeout.
pub fn run_on_pristine_thread(
    prop: &'static dyn Prop,
    scenario: &Value,
    timeout: Duration,
) -> Option<(RunResult, Cov)> {
    let env_seed = scenario["env_seed"].as_u64().unwrap_or(1);
    seams::set_env_seed(env_seed);
    let sc = scenario.clone();
    let (tx, rx) = mpsc::channel();
    let h = std::thread::Builder::new()
        .name("run".into())
        .stack_size(8 << 20)
        .spawn(move || {
            let mut cov = Cov::default();
            let r = std::panic::catch_unwind(std::panic::AssertUnwindSafe(|| prop.execute(&sc, &mut cov)));
            let rr = match r {
                Ok(rr) => rr,
                Err(_) => {
                    let (loc, msg) = seams::take_last_panic().unwrap_or(("?".into(), "?".into()));
                    let sig = if msg.starts_with("HARNESS") {
                        format!("HARNESS/{}", msg)
                    } else {
                        prop.classify_panic(&loc, &msg)
                    };
                    RunResult::new(
                        0,
                        Some(Violation {
                            signature: sig,
                            at_op: -1,
                            detail: format!("panic at {}: {}", loc, msg),
                        }),
                    )
                }
            };
            let _ = tx.send((rr, cov));
        })
        .expect("spawn run thread");
    use std::os::unix::thread::JoinHandleExt;
    let mut cid: libc::clockid_t = 0;
    let have_cpu_clock = unsafe { libc::pthread_getcpuclockid(h.as_pthread_t(), &mut cid) } == 0;
    let cpu_limit = prop.cpu_limit_s() as i64;
    let started = std::time::Instant::now();
    loop {
        match rx.recv_timeout(Duration::from_millis(200)) {
            Ok(x) => {
                let _ = h.join();
                return Some(x);
            }
            Err(mpsc::RecvTimeoutError::Disconnected) => return None,
            Err(mpsc::RecvTimeoutError::Timeout) => {
                if started.elapsed() > timeout {
                    return None;
                }
                if have_cpu_clock {
                    let mut ts = libc::timespec { tv_sec: 0, tv_nsec: 0 };
                    if unsafe { libc::clock_gettime(cid, &mut ts) } == 0 && ts.tv_sec as i64 >= cpu_limit {
                        return None;
                    }
                }
            }
        }
    }
}

/// initialisation of a process that executes scenarios on its main thread (validation tools)
pub fn init_single_process(prop: &'static dyn Prop) {
    worker_init(prop);
}

/// A logger as an application would install one: every record the library emits is formatted (so
/// that the `Display`/`Debug` impls used in log statements run, possibly under a manager lock) and
/// then discarded. Engine SEQ only.
struct FormattingSink;
impl log::Log for FormattingSink {
    fn enabled(&self, _m: &log::Metadata) -> bool {
        true
    }
    fn log(&self, record: &log::Record) {
        let text = format!("{}", record.args());
        std::hint::black_box(text.len());
    }
    fn flush(&self) {}
}
static SINK: FormattingSink = FormattingSink;

fn worker_init(prop: &'static dyn Prop) {
    seams::install_panic_hook();
    if prop.engine() == "seq" && log::set_logger(&SINK).is_ok() {
        log::set_max_level(log::LevelFilter::Trace);
    }
    seams::set_env_seed(0xC0FFEE);
    for (k, _) in std::env::vars() {
        if k.starts_with("SENTINEL_") {
            std::env::remove_var(k);
        }
    }
    vc::enable(BASE_NS);
    if prop.needs_warm_up() {
        world::warm_up(BASE_NS);
    }
    prop.extra_warm_up();
}

/// `seqsim worker <prop> <seed> <start> <stride> <end> <deadline_unix_ms> <known 0/1>`
pub fn worker_main(prop: &'static dyn Prop, seed: u64, start: u64, stride: u64, end: u64, deadline_ms: u128, known: bool) {
    worker_init(prop);
    let out = std::io::stdout();
    let mut total = Cov::default();
    let mut hashes: BTreeSet<u64> = BTreeSet::new();
    let mut nontrivial_hashes: BTreeSet<u64> = BTreeSet::new();
    let mut states: BTreeSet<u64> = BTreeSet::new();
    let mut runs = 0u64;
    let mut idx = start;
    let mut sample: Option<Value> = None;
    while idx < end {
        if runs % 16 == 0 {
            let now = std::time::SystemTime::now()
                .duration_since(std::time::UNIX_EPOCH)
                .unwrap()
                .as_millis();
            if now > deadline_ms {
                break;
            }
        }
        let sc = make_scenario(prop, seed, idx, known);
        {
            let mut o = out.lock();
            let _ = writeln!(o, "START {}", idx);
            let _ = o.flush();
        }
        let res = run_on_pristine_thread(prop, &sc, Duration::from_secs(prop.watchdog_s()));
        match res {
            None => {
                let v = Violation::new(format!("{}/hang", prop.id()), 0, "run exceeded the wall-clock watchdog");
                let mut o = out.lock();
                let _ = writeln!(o, "FAIL {} 0 {}", idx, serde_json::to_string(&v).unwrap());
                emit_stats(&mut o, runs, &total, &hashes, &nontrivial_hashes, &states, &sample);
                let _ = o.flush();
                std::process::exit(0);
            }
            Some((rr, cov)) => {
                runs += 1;
                total.merge(&cov);
                if let Some(v) = rr.violation {
                    let mut o = out.lock();
                    let _ = writeln!(o, "FAIL {} {} {}", idx, rr.trace_hash, serde_json::to_string(&v).unwrap());
                    emit_stats(&mut o, runs, &total, &hashes, &nontrivial_hashes, &states, &sample);
                    let _ = o.flush();
                    // the process is discarded: a poisoned lock or leaked entry never reaches another run
                    std::process::exit(0);
                }
                hashes.insert(rr.trace_hash);
                if cov.nontrivial {
                    nontrivial_hashes.insert(rr.trace_hash);
                    if sample.is_none() {
                        sample = Some(sc.clone());
                    }
                }
                for s in &cov.states {
                    if states.len() < 2_000_000 {
                        states.insert(*s);
                    }
                }
                let mut o = out.lock();
                let _ = writeln!(o, "DONE {} {}", idx, rr.trace_hash);
            }
        }
        idx += stride;
    }
    let mut o = out.lock();
    emit_stats(&mut o, runs, &total, &hashes, &nontrivial_hashes, &states, &sample);
    let _ = writeln!(o, "END {}", idx);
    let _ = o.flush();
}

fn emit_stats(
    o: &mut dyn Write,
    runs: u64,
    total: &Cov,
    hashes: &BTreeSet<u64>,
    nth: &BTreeSet<u64>,
    states: &BTreeSet<u64>,
    sample: &Option<Value>,
) {
    let _ = writeln!(
        o,
        "STATS {}",
        json!({"runs": runs, "cov": total, "sample": sample})
    );
    let enc = |s: &BTreeSet<u64>| s.iter().map(|h| format!("{:x}", h)).collect::<Vec<_>>().join(",");
    let _ = writeln!(o, "HASHES {}", enc(hashes));
    let _ = writeln!(o, "NTHASHES {}", enc(nth));
    let _ = writeln!(o, "STATEHASHES {}", enc(states));
}

/// `seqsim one <prop> <scenario-file>`: execute one scenario alone in this (new) process.
pub fn one_main(prop: &'static dyn Prop, scenario: &Value) -> (Option<Violation>, u64, Cov, Option<Value>) {
    worker_init(prop);
    seams::set_verbose_panics(true);
    eprintln!("QUALIFIER {}", prop.qualifier(scenario));
    // generous: this process runs alone, and a busy machine must never turn into a "hang" verdict
    match run_on_pristine_thread(prop, scenario, Duration::from_secs((prop.watchdog_s() * 20).max(1200))) {
        None => (
            Some(Violation::new(format!("{}/hang", prop.id()), 0, "run exceeded the watchdog")),
            0,
            Cov::default(),
            None,
        ),
        Some((rr, cov)) => (rr.violation, rr.trace_hash, cov, rr.rewrite),
    }
}

#[derive(Debug)]
pub struct OneOutcome {
    pub signature: Option<String>,
    pub detail: String,
    pub at_op: i64,
    pub trace_hash: u64,
    pub rewrite: Option<Value>,
}

/// Runs a scenario in a newly started process and classifies the verdict (also from an abort).
pub fn run_in_new_process(prop_id: &str, scenario: &Value, tag: &str) -> OneOutcome {
    let dir = scratch_dir();
    let path = dir.join(format!("one-{}-{}-{}.json", prop_id, std::process::id(), tag));
    std::fs::write(&path, serde_json::to_vec(scenario).unwrap()).unwrap();
    let exe = std::env::current_exe().unwrap();
    let out = Command::new(exe)
        .arg("one")
        .arg(prop_id)
        .arg(&path)
        .stdin(Stdio::null())
        .output()
        .expect("spawn one");
    let _ = std::fs::remove_file(&path);
    let stdout = String::from_utf8_lossy(&out.stdout);
    for line in stdout.lines() {
        if let Some(rest) = line.strip_prefix("RESULT ") {
            let v: Value = serde_json::from_str(rest).unwrap();
            return OneOutcome {
                signature: v["signature"].as_str().map(|s| s.to_string()),
                detail: v["detail"].as_str().unwrap_or("").to_string(),
                at_op: v["at_op"].as_i64().unwrap_or(-1),
                trace_hash: v["trace_hash"].as_u64().unwrap_or(0),
                rewrite: if v["rewrite"].is_null() { None } else { Some(v["rewrite"].clone()) },
            };
        }
    }
    // no RESULT line: the process died (abort, double panic, signal); classify from the first
    // panic the verbose hook wrote to stderr
    let stderr = String::from_utf8_lossy(&out.stderr);
    let first_panic = stderr.lines().find(|l| l.starts_with("PANIC at ")).map(|l| l.to_string());
    let tail: String = stderr.lines().rev().take(4).collect::<Vec<_>>().into_iter().rev().collect::<Vec<_>>().join(" | ");
    let sig = match &first_panic {
        Some(l) => {
            let rest = &l["PANIC at ".len()..];
            let (loc, msg) = rest.split_once(": ").unwrap_or((rest, ""));
            let base = all_props_classify(prop_id, loc, msg);
            let q = stderr.lines().find_map(|l| l.strip_prefix("QUALIFIER ")).unwrap_or("").to_string();
            if q.is_empty() {
                format!("{}+abort", base)
            } else {
                format!("{}/{}+abort", base, q)
            }
        }
        None => format!("{}/abort", prop_id),
    };
    OneOutcome {
        signature: Some(sig),
        detail: format!("process died: status {:?}; first panic: {:?}; stderr tail: {}", out.status, first_panic, tail),
        at_op: -1,
        trace_hash: 0,
        rewrite: None,
    }
}

/// set by main(): classification of a panic for a property id (needed when a process aborted)
pub static CLASSIFY: std::sync::OnceLock<fn(&str, &str, &str) -> String> = std::sync::OnceLock::new();

fn all_props_classify(prop_id: &str, loc: &str, msg: &str) -> String {
    match CLASSIFY.get() {
        Some(f) => f(prop_id, loc, msg),
        None => format!("{}/panic@{}", prop_id, loc),
    }
}

pub fn scratch_dir() -> std::path::PathBuf {
    let p = verif_root().join("scratch");
    let _ = std::fs::create_dir_all(&p);
    p
}

pub fn verif_root() -> std::path::PathBuf {
    if let Ok(p) = std::env::var("VERIF_ROOT") {
        return p.into();
    }
    // exe = <root>/sim/target/release/seqsim
    let exe = std::env::current_exe().unwrap();
    exe.parent()
        .and_then(|p| p.parent())
        .and_then(|p| p.parent())
        .and_then(|p| p.parent())
        .map(|p| p.to_path_buf())
        .unwrap_or_else(|| "/verif".into())
}

#[derive(Deserialize, Clone, Debug)]
pub struct KnownFinding {
    pub property: String,
    pub signature: String,
    pub status: String,
    pub what: String,
}

pub fn load_known() -> Vec<KnownFinding> {
    let p = verif_root().join("known_findings.json");
    match std::fs::read(&p) {
        Ok(b) => {
            let v: Value = serde_json::from_slice(&b).expect("known_findings.json must parse");
            serde_json::from_value(v["findings"].clone()).expect("known_findings.json: findings[]")
        }
        Err(_) => vec![],
    }
}

struct FailRec {
    idx: u64,
    trace_hash: u64,
    v: Violation,
}

struct WorkerOut {
    next_idx: u64, // first index this residue class has not completed
    ended: bool,
    fail: Option<FailRec>,
    died_at: Option<u64>,
    runs: u64,
    cov: Cov,
    hashes: Vec<u64>,
    nthashes: Vec<u64>,
    statehashes: Vec<u64>,
    sample: Option<Value>,
}

fn spawn_worker(prop: &str, seed: u64, start: u64, stride: u64, end: u64, deadline_ms: u128, known: bool) -> std::process::Child {
    let exe = std::env::current_exe().unwrap();
    Command::new(exe)
        .args([
            "worker",
            prop,
            &seed.to_string(),
            &start.to_string(),
            &stride.to_string(),
            &end.to_string(),
            &deadline_ms.to_string(),
            if known { "1" } else { "0" },
        ])
        .stdin(Stdio::null())
        .stdout(Stdio::piped())
        .stderr(Stdio::null())
        .spawn()
        .expect("spawn worker")
}

fn collect_worker(mut child: std::process::Child, start: u64, stride: u64) -> WorkerOut {
    let stdout = child.stdout.take().unwrap();
    let rd = BufReader::new(stdout);
    let mut w = WorkerOut {
        next_idx: start,
        ended: false,
        fail: None,
        died_at: None,
        runs: 0,
        cov: Cov::default(),
        hashes: vec![],
        nthashes: vec![],
        statehashes: vec![],
        sample: None,
    };
    let mut started: Option<u64> = None;
    let dec = |s: &str| -> Vec<u64> {
        s.split(',').filter(|x| !x.is_empty()).map(|x| u64::from_str_radix(x, 16).unwrap()).collect()
    };
    for line in rd.lines() {
        let line = match line {
            Ok(l) => l,
            Err(_) => break,
        };
        if let Some(r) = line.strip_prefix("START ") {
            started = r.parse().ok();
        } else if let Some(r) = line.strip_prefix("DONE ") {
            let idx: u64 = r.split(' ').next().unwrap().parse().unwrap();
            w.next_idx = idx + stride;
            started = None;
        } else if let Some(r) = line.strip_prefix("FAIL ") {
            let mut it = r.splitn(3, ' ');
            let idx: u64 = it.next().unwrap().parse().unwrap();
            let th: u64 = it.next().unwrap().parse().unwrap();
            let v: Violation = serde_json::from_str(it.next().unwrap()).unwrap();
            w.fail = Some(FailRec { idx, trace_hash: th, v });
            w.next_idx = idx + stride;
            started = None;
        } else if let Some(r) = line.strip_prefix("STATS ") {
            let v: Value = serde_json::from_str(r).unwrap();
            w.runs = v["runs"].as_u64().unwrap();
            w.cov = serde_json::from_value(v["cov"].clone()).unwrap();
            if !v["sample"].is_null() {
                w.sample = Some(v["sample"].clone());
            }
        } else if let Some(r) = line.strip_prefix("HASHES ") {
            w.hashes = dec(r);
        } else if let Some(r) = line.strip_prefix("NTHASHES ") {
            w.nthashes = dec(r);
        } else if let Some(r) = line.strip_prefix("STATEHASHES ") {
            w.statehashes = dec(r);
        } else if line.starts_with("END ") {
            w.ended = true;
        }
    }
    let _ = child.wait();
    if !w.ended && w.fail.is_none() {
        // abrupt death: attributed to the announced index
        if let Some(idx) = started {
            w.died_at = Some(idx);
            w.next_idx = idx + stride;
        } else {
            w.ended = true; // deadline reached or nothing to do
        }
    }
    w
}

pub struct BatchOpts {
    pub thorough: bool,
    pub seed: u64,
    pub workers: u64,
    pub runs_override: Option<u64>,
    pub wall_override: Option<u64>,
    pub write_evidence: bool,
    pub from: u64,
}

/// Coordinator. Returns the process exit code.
pub fn batch_main(prop: &'static dyn Prop, opts: BatchOpts) -> i32 {
    let t0 = Instant::now();
    let known_all = load_known();
    let known: Vec<&KnownFinding> = known_all
        .iter()
        .filter(|k| k.property == prop.id() && k.status == "known")
        .collect();
    let has_known = !known.is_empty();
    let mut budget = prop.budget(opts.thorough);
    if let Some(r) = opts.runs_override {
        budget.runs = r;
    }
    if let Some(w) = opts.wall_override {
        budget.wall_s = w;
    }
    println!("VERIF_SEED={} property={} tier={} runs<={} wall<={}s workers={}", opts.seed, prop.id(), if opts.thorough { "thorough" } else { "quick" }, budget.runs, budget.wall_s, opts.workers);
    let deadline_ms = std::time::SystemTime::now()
        .duration_since(std::time::UNIX_EPOCH)
        .unwrap()
        .as_millis()
        + (budget.wall_s as u128) * 1000;
    let end = opts.from + budget.runs;
    let stride = if prop.process_per_run() { opts.workers } else { opts.workers };
    // one collector thread per residue class
    let (tx, rx) = mpsc::channel::<(u64, WorkerOut)>();
    let spawn_class = |class: u64, start: u64, tx: mpsc::Sender<(u64, WorkerOut)>| {
        let pid = prop.id().to_string();
        let seed = opts.seed;
        std::thread::spawn(move || {
            let child = spawn_worker(&pid, seed, start, stride, end, deadline_ms, has_known);
            let w = collect_worker(child, start, stride);
            let _ = tx.send((class, w));
        });
    };
    let mut active = 0;
    for c in 0..opts.workers {
        if opts.from + c < end {
            spawn_class(c, opts.from + c, tx.clone());
            active += 1;
        }
    }
    let mut total = Cov::default();
    let mut runs = 0u64;
    let mut hashes: BTreeSet<u64> = BTreeSet::new();
    let mut nthashes: BTreeSet<u64> = BTreeSet::new();
    let mut statehashes: BTreeSet<u64> = BTreeSet::new();
    let mut sample: Option<Value> = None;
    // signature -> (count, first idx, first trace hash, first violation)
    let mut fails: BTreeMap<String, (u64, u64, u64, Violation)> = BTreeMap::new();
    let mut restarts = 0u64;
    while active > 0 {
        let (class, w) = rx.recv().unwrap();
        active -= 1;
        runs += w.runs;
        total.merge(&w.cov);
        hashes.extend(w.hashes.iter());
        nthashes.extend(w.nthashes.iter());
        statehashes.extend(w.statehashes.iter());
        if sample.is_none() {
            sample = w.sample.clone();
        }
        let mut restart = false;
        if let Some(f) = w.fail {
            let e = fails.entry(f.v.signature.clone()).or_insert((0, f.idx, f.trace_hash, f.v.clone()));
            e.0 += 1;
            restart = true;
        }
        if let Some(idx) = w.died_at {
            let sig = format!("{}/abort", prop.id());
            let e = fails.entry(sig.clone()).or_insert((
                0,
                idx,
                0,
                Violation {
                    signature: sig,
                    at_op: -1,
                    detail: "worker process died while executing this index".into(),
                },
            ));
            e.0 += 1;
            runs += 1;
            restart = true;
        }
        let unknown_fails: u64 = fails
            .iter()
            .filter(|(s, _)| !known.iter().any(|k| &k.signature == *s))
            .map(|(_, v)| v.0)
            .sum();
        if restart && w.next_idx < end && unknown_fails < 24 {
            let now = std::time::SystemTime::now().duration_since(std::time::UNIX_EPOCH).unwrap().as_millis();
            if now < deadline_ms && restarts < 20_000 {
                restarts += 1;
                spawn_class(class, w.next_idx, tx.clone());
                active += 1;
            }
        }
    }
    drop(tx);

    // ---- triage: confirm each distinct signature in a newly started process
    let mut exit_code = 0;
    let mut violations_reported = 0u64;
    let mut known_lines: Vec<String> = vec![];
    let mut replay_paths: Vec<String> = vec![];
    for (sig, (count, idx, th, v)) in &fails {
        let sc = make_scenario(prop, opts.seed, *idx, has_known);
        let conf = run_in_new_process(prop.id(), &sc, "confirm");
        let conf_sig = conf.signature.clone().unwrap_or_else(|| "<no violation>".into());
        if sig.starts_with("HARNESS") || conf_sig.starts_with("HARNESS") {
            println!("HARNESS-ERROR property={} idx={} {} / confirm: {} {}", prop.id(), idx, sig, conf_sig, conf.detail);
            exit_code = 2;
            continue;
        }
        if sig.ends_with("/hang") && conf.signature.is_none() {
            // the watchdog is wall-clock based: under machine load a long run can trip it; the same
            // scenario alone, with twenty times the budget, terminated normally -> not a hang
            println!("note: property={} idx={} tripped the batch watchdog but terminates normally when run alone (machine load); not a violation", prop.id(), idx);
            continue;
        }
        let abortish = sig.ends_with("/abort") || conf_sig.ends_with("/abort") || conf_sig.ends_with("+abort");
        if conf_sig != *sig && !abortish {
            println!(
                "HARNESS-ERROR property={} idx={} determinism: batch said `{}` (trace {:x}), fresh process said `{}` (trace {:x}): {}",
                prop.id(), idx, sig, th, conf_sig, conf.trace_hash, conf.detail
            );
            exit_code = 2;
            continue;
        }
        if !abortish && conf.trace_hash != *th {
            println!(
                "HARNESS-ERROR property={} idx={} determinism: same signature `{}` but trace {:x} in batch vs {:x} alone",
                prop.id(), idx, sig, th, conf.trace_hash
            );
            exit_code = 2;
            continue;
        }
        let sig = &conf_sig;
        if let Some(k) = known.iter().find(|k| k.signature == *sig) {
            known_lines.push(format!(
                "KNOWN-FINDING: property={} {} [signature {} ; {} of {} runs ; first at idx {}]",
                prop.id(), k.what, sig, count, runs, idx
            ));
            continue;
        }
        // genuine, unlisted violation: minimise and write the replay file
        let (min_sc, min_out, tried) = minimise(prop, &sc, sig);
        let path = write_replay(prop, opts.seed, *idx, &min_sc, sig, &min_out, sc_ops_len(&sc), tried);
        println!("violation: signature={} idx={} count={} detail={}", sig, idx, count, if min_out.detail.is_empty() { &v.detail } else { &min_out.detail });
        println!("VIOLATION property={} replay={}", prop.id(), path);
        replay_paths.push(path);
        violations_reported += 1;
        if exit_code == 0 {
            exit_code = 1;
        }
    }
    for l in &known_lines {
        println!("{}", l);
    }
    let wall = t0.elapsed().as_secs_f64();
    if opts.write_evidence {
        let fail_summary: Vec<Value> = fails
            .iter()
            .map(|(s, (c, i, _, v))| json!({"signature": s, "runs": c, "first_idx": i, "detail": v.detail}))
            .collect();
        let ev = json!({
            "property_id": prop.id(),
            "tier": if opts.thorough { "thorough" } else { "quick" },
            "seed": opts.seed,
            "level": prop.level(),
            "wall_s": wall,
            "violations": violations_reported,
            "coverage": {
                "evaluations": runs,
                "distinct_nontrivial": nthashes.len(),
                "distinct_traces": hashes.len(),
                "distinct_abstract_states": statehashes.len(),
                "rule": prop.rule_text(),
                "samples": [sample.unwrap_or(Value::Null)],
                "runs_per_hour": if wall > 0.0 { (runs as f64 / wall * 3600.0) as u64 } else { 0 },
                "simulated_seconds": total.sim_ns as f64 / 1e9,
                "operations": total.ops,
                "fault_and_probe_counters": total.counters,
                "worker_processes_restarted": restarts,
                "failing_signatures": fail_summary,
                "known_findings_hit": known_lines,
                "components": prop.components(),
                "engine": if prop.engine() == "seq" { "SEQ: one pristine OS thread per run in worker processes; violations confirmed and minimised in newly started processes" } else { "SCHED: every execution of a thread program runs under our own seeded shuttle Scheduler on a new OS thread in worker processes; a failing execution is rewritten as default policy + explicit preemptions, confirmed and minimised in newly started processes" },
            },
            "assumptions": [
                "virtual clock (hook H1) is the only clock the code under test reads; it never goes backwards",
                "std HashMap/HashSet order is derived from the scenario's env_seed through the interposed getrandom",
                "background threads (ticker, collectors, metric aggregator) are never started",
                "a clean batch is evidence, not proof: schedules/histories/configurations are sampled"
            ],
        });
        // a property served by both engines writes two parts that ./check merges
        let suffix = std::env::var("VERIF_EVIDENCE_SUFFIX").unwrap_or_default();
        let p = verif_root().join("evidence").join(format!("{}{}.json", prop.id(), suffix));
        let _ = std::fs::create_dir_all(p.parent().unwrap());
        std::fs::write(&p, serde_json::to_vec_pretty(&ev).unwrap()).expect("write evidence");
    }
    println!(
        "summary property={} runs={} distinct_traces={} nontrivial_distinct={} states={} sim_s={:.1} wall_s={:.1} restarts={} exit={}",
        prop.id(), runs, hashes.len(), nthashes.len(), statehashes.len(), total.sim_ns as f64 / 1e9, wall, restarts, exit_code
    );
    if runs == 0 && exit_code == 0 {
        println!("HARNESS-ERROR no runs executed");
        return 2;
    }
    exit_code
}

fn sc_ops_len(sc: &Value) -> usize {
    sc.get("ops").and_then(|o| o.as_array()).map(|a| a.len()).unwrap_or(0)
}

/// Greedy minimisation: repeatedly take the first candidate (most aggressive first) that still
/// fails with the same signature, each candidate in its own new process, 16 at a time.
pub fn minimise(prop: &'static dyn Prop, sc: &Value, sig: &str) -> (Value, OneOutcome, usize) {
    let mut cur = sc.clone();
    let mut cur_out = run_in_new_process(prop.id(), &cur, "min0");
    if let Some(rw) = cur_out.rewrite.clone() {
        let o = run_in_new_process(prop.id(), &rw, "min0r");
        if o.signature.as_deref() == Some(sig) {
            cur = rw;
            cur_out = o;
        }
    }
    let mut tried = 0usize;
    let t0 = Instant::now();
    'outer: loop {
        if tried > 600 || t0.elapsed() > Duration::from_secs(120) {
            break;
        }
        let cands = prop.shrink(&cur);
        if cands.is_empty() {
            break;
        }
        for chunk in cands.chunks(16) {
            let outs: Vec<OneOutcome> = std::thread::scope(|s| {
                let hs: Vec<_> = chunk
                    .iter()
                    .enumerate()
                    .map(|(i, c)| {
                        let tag = format!("m{}-{}", tried, i);
                        s.spawn(move || run_in_new_process(prop.id(), c, &tag))
                    })
                    .collect();
                hs.into_iter().map(|h| h.join().unwrap()).collect()
            });
            tried += chunk.len();
            for (c, o) in chunk.iter().zip(outs.into_iter()) {
                if o.signature.as_deref() == Some(sig) {
                    cur = c.clone();
                    cur_out = o;
                    continue 'outer;
                }
            }
            if tried > 600 || t0.elapsed() > Duration::from_secs(120) {
                break 'outer;
            }
        }
        break;
    }
    (cur, cur_out, tried)
}

fn write_replay(prop: &dyn Prop, seed: u64, idx: u64, sc: &Value, sig: &str, out: &OneOutcome, from_ops: usize, tried: usize) -> String {
    let dir = verif_root().join("replays");
    let _ = std::fs::create_dir_all(&dir);
    let name = format!("{}-seed{}-idx{}-{:x}.json", prop.id(), seed, idx, fnv1a(sig.as_bytes()) & 0xffff);
    let p = dir.join(name);
    let v = json!({
        "property": prop.id(),
        "engine": prop.engine(),
        "verif_seed": seed,
        "run_index": idx,
        "scenario": sc,
        "violation": {"signature": sig, "at_op": out.at_op, "detail": out.detail},
        "trace_hash": out.trace_hash,
        "minimised_from_ops": from_ops,
        "minimisation_candidates_tried": tried,
    });
    std::fs::write(&p, serde_json::to_vec_pretty(&v).unwrap()).expect("write replay");
    p.to_string_lossy().to_string()
}

/// `seqsim replay <file>`: re-executes the recorded scenario in a new process; exit 1 with the
/// same VIOLATION line iff signature and trace hash match, exit 2 REPLAY-DIVERGED otherwise.
pub fn replay_main(props: &[&'static dyn Prop], path: &str) -> i32 {
    let v: Value = serde_json::from_slice(&std::fs::read(path).expect("read replay")).expect("parse replay");
    let pid = v["property"].as_str().unwrap();
    let prop = match props.iter().find(|p| p.id() == pid) {
        Some(p) => *p,
        None => {
            println!("HARNESS-ERROR unknown property {}", pid);
            return 2;
        }
    };
    let out = run_in_new_process(prop.id(), &v["scenario"], "replay");
    let want_sig = v["violation"]["signature"].as_str().unwrap_or("");
    let want_hash = v["trace_hash"].as_u64().unwrap_or(0);
    match &out.signature {
        Some(s) if s == want_sig && (out.trace_hash == want_hash || s.ends_with("abort")) => {
            println!("replayed: signature={} at_op={} detail={}", s, out.at_op, out.detail);
            println!("VIOLATION property={} replay={}", pid, path);
            1
        }
        Some(s) => {
            println!("REPLAY-DIVERGED expected `{}` trace {:x}, got `{}` trace {:x}: {}", want_sig, want_hash, s, out.trace_hash, out.detail);
            2
        }
        None => {
            println!("REPLAY-DIVERGED expected `{}`, run was clean (trace {:x})", want_sig, out.trace_hash);
            2
        }
    }
}

// ---------------------------------------------------------------------------------------------
// generic shrink helpers over scenarios of the shape {.., "ops":[..]}

/// Candidates that drop chunks of ops: halves, quarters, eighths, then single ops.
pub fn shrink_ops(sc: &Value) -> Vec<Value> {
    let mut out = vec![];
    let ops = match sc.get("ops").and_then(|o| o.as_array()) {
        Some(o) => o.clone(),
        None => return out,
    };
    let n = ops.len();
    if n == 0 {
        return out;
    }
    let mut with = |keep: Vec<Value>| {
        let mut c = sc.clone();
        c["ops"] = Value::Array(keep);
        out.push(c);
    };
    // drop tail first (ops after the violation rarely matter)
    let mut size = n / 2;
    while size >= 1 {
        let mut start = 0;
        let mut cs = vec![];
        while start < n {
            let end = (start + size).min(n);
            let keep: Vec<Value> = ops.iter().enumerate().filter(|(i, _)| *i < start || *i >= end).map(|(_, v)| v.clone()).collect();
            cs.push(keep);
            start += size;
        }
        cs.reverse();
        for k in cs {
            with(k);
        }
        if size == 1 {
            break;
        }
        size /= 2;
    }
    out
}

/// Determinism protocol helper: executes indices start, start+stride, .. < end in this one
/// process and prints `T <idx> <trace hash> <signature|->`.
pub fn trace_main(prop: &'static dyn Prop, seed: u64, start: u64, stride: u64, end: u64) {
    worker_init(prop);
    let known = load_known().iter().any(|k| k.property == prop.id() && k.status == "known");
    let mut idx = start;
    while idx < end {
        let sc = make_scenario(prop, seed, idx, known);
        match run_on_pristine_thread(prop, &sc, Duration::from_secs(30)) {
            None => {
                println!("T {} 0 hang", idx);
                return;
            }
            Some((rr, _)) => {
                let sig = rr.violation.as_ref().map(|v| v.signature.clone()).unwrap_or_else(|| "-".into());
                println!("T {} {:x} {}", idx, rr.trace_hash, sig);
                if rr.violation.is_some() {
                    // state may be dirty: stop, the caller restarts after this index
                    println!("STOPPED {}", idx);
                    return;
                }
            }
        }
        idx += stride;
    }
}
