//! The simulated "world": reset protocol, rule specifications that serialise into scenarios,
//! entry/exit helpers under the virtual clock, block-error parsing, warm-up.

use crate::seams::vc;
use sentinel_core::base::{ParamsList, ParamsMap, TrafficType};
use sentinel_core::{circuitbreaker as cb, flow, hotspot, isolation, stat, system, EntryBuilder};
use serde::{Deserialize, Serialize};
use std::collections::HashMap;
use std::sync::Arc;

pub const MS: u64 = 1_000_000;
pub const SEC: u64 = 1_000_000_000;
/// Base epoch of every simulation: 2023-11-14T22:13:20Z, a multiple of 10 s, 1 s, 500 ms.
pub const BASE_NS: u64 = 1_700_000_000 * SEC;

// ---------------------------------------------------------------------------------------------
// rule specifications

/// f64 that survives JSON: NaN / infinities are written as strings
pub mod f64_json {
    use serde::{Deserialize, Deserializer, Serializer};
    pub fn serialize<S: Serializer>(v: &f64, s: S) -> Result<S::Ok, S::Error> {
        if v.is_finite() {
            s.serialize_f64(*v)
        } else {
            s.serialize_str(&format!("{}", v))
        }
    }
    pub fn deserialize<'de, D: Deserializer<'de>>(d: D) -> Result<f64, D::Error> {
        #[derive(Deserialize)]
        #[serde(untagged)]
        enum E {
            N(f64),
            S(String),
        }
        Ok(match E::deserialize(d)? {
            E::N(x) => x,
            E::S(s) => s.parse::<f64>().unwrap_or(f64::NAN),
        })
    }
}

#[derive(Serialize, Deserialize, Clone, Debug, PartialEq)]
pub struct FlowSpec {
    pub id: String,
    pub res: String,
    #[serde(default)]
    pub ref_res: String,
    /// 0 Direct, 1 WarmUp, 2 MemoryAdaptive
    #[serde(default)]
    pub calc: u8,
    /// 0 Reject, 1 Throttling
    #[serde(default)]
    pub ctrl: u8,
    /// 0 Current, 1 Associated
    #[serde(default)]
    pub relation: u8,
    #[serde(with = "f64_json")]
    pub threshold: f64,
    #[serde(default)]
    pub warm_period: u32,
    #[serde(default)]
    pub warm_cold: u32,
    #[serde(default)]
    pub max_queue_ms: u32,
    #[serde(default)]
    pub interval_ms: u32,
    #[serde(default)]
    pub mem: [u64; 4],
}

impl FlowSpec {
    pub fn reject(id: &str, res: &str, threshold: f64, interval_ms: u32) -> FlowSpec {
        FlowSpec {
            id: id.into(),
            res: res.into(),
            ref_res: String::new(),
            calc: 0,
            ctrl: 0,
            relation: 0,
            threshold,
            warm_period: 0,
            warm_cold: 0,
            max_queue_ms: 0,
            interval_ms,
            mem: [0; 4],
        }
    }
    pub fn rule(&self) -> Arc<flow::Rule> {
        Arc::new(flow::Rule {
            id: self.id.clone(),
            resource: self.res.clone(),
            ref_resource: self.ref_res.clone(),
            calculate_strategy: match self.calc {
                0 => flow::CalculateStrategy::Direct,
                1 => flow::CalculateStrategy::WarmUp,
                2 => flow::CalculateStrategy::MemoryAdaptive,
                n => flow::CalculateStrategy::Custom(n),
            },
            control_strategy: match self.ctrl {
                0 => flow::ControlStrategy::Reject,
                1 => flow::ControlStrategy::Throttling,
                n => flow::ControlStrategy::Custom(n),
            },
            relation_strategy: if self.relation == 0 {
                flow::RelationStrategy::Current
            } else {
                flow::RelationStrategy::Associated
            },
            threshold: self.threshold,
            warm_up_period_sec: self.warm_period,
            warm_up_cold_factor: self.warm_cold,
            max_queueing_time_ms: self.max_queue_ms,
            stat_interval_ms: self.interval_ms,
            low_mem_usage_threshold: self.mem[0],
            high_mem_usage_threshold: self.mem[1],
            mem_low_water_mark: self.mem[2],
            mem_high_water_mark: self.mem[3],
        })
    }
}

#[derive(Serialize, Deserialize, Clone, Debug, PartialEq)]
pub struct BreakerSpec {
    pub id: String,
    pub res: String,
    /// 0 SlowRequestRatio, 1 ErrorRatio, 2 ErrorCount
    pub strategy: u8,
    pub retry_ms: u32,
    pub min_req: u64,
    pub interval_ms: u32,
    pub buckets: u32,
    #[serde(default)]
    pub max_rt: u64,
    #[serde(with = "f64_json")]
    pub threshold: f64,
}

impl BreakerSpec {
    pub fn rule(&self) -> Arc<cb::Rule> {
        Arc::new(cb::Rule {
            id: self.id.clone(),
            resource: self.res.clone(),
            strategy: match self.strategy {
                0 => cb::BreakerStrategy::SlowRequestRatio,
                1 => cb::BreakerStrategy::ErrorRatio,
                2 => cb::BreakerStrategy::ErrorCount,
                n => cb::BreakerStrategy::Custom(n),
            },
            retry_timeout_ms: self.retry_ms,
            min_request_amount: self.min_req,
            stat_interval_ms: self.interval_ms,
            stat_sliding_window_bucket_count: self.buckets,
            max_allowed_rt_ms: self.max_rt,
            threshold: self.threshold,
        })
    }
    /// effective bucket count as documented on the rule
    pub fn eff_buckets(&self) -> u32 {
        if self.buckets == 0 || self.interval_ms % self.buckets != 0 {
            1
        } else {
            self.buckets
        }
    }
}

#[derive(Serialize, Deserialize, Clone, Debug, PartialEq)]
pub struct HotspotSpec {
    pub id: String,
    pub res: String,
    /// 0 Concurrency, 1 QPS
    pub metric: u8,
    /// 0 Reject, 1 Throttling
    #[serde(default)]
    pub ctrl: u8,
    #[serde(default)]
    pub index: i64,
    #[serde(default)]
    pub key: String,
    pub threshold: u64,
    #[serde(default)]
    pub max_queue_ms: u64,
    #[serde(default)]
    pub burst: u64,
    #[serde(default)]
    pub duration_s: u64,
    #[serde(default)]
    pub capacity: usize,
    #[serde(default)]
    pub specific: Vec<(String, u64)>,
}

impl HotspotSpec {
    pub fn rule(&self) -> Arc<hotspot::Rule> {
        Arc::new(hotspot::Rule {
            id: self.id.clone(),
            resource: self.res.clone(),
            metric_type: if self.metric == 0 {
                hotspot::MetricType::Concurrency
            } else {
                hotspot::MetricType::QPS
            },
            control_strategy: match self.ctrl {
                0 => hotspot::ControlStrategy::Reject,
                1 => hotspot::ControlStrategy::Throttling,
                n => hotspot::ControlStrategy::Custom(n),
            },
            param_index: self.index as isize,
            param_key: self.key.clone(),
            threshold: self.threshold,
            max_queueing_time_ms: self.max_queue_ms,
            burst_count: self.burst,
            duration_in_sec: self.duration_s,
            params_max_capacity: self.capacity,
            specific_items: self.specific.iter().cloned().collect::<HashMap<_, _>>(),
        })
    }
    pub fn threshold_for(&self, v: &str) -> u64 {
        for (k, t) in &self.specific {
            if k == v {
                return *t;
            }
        }
        self.threshold
    }
}

#[derive(Serialize, Deserialize, Clone, Debug, PartialEq)]
pub struct IsoSpec {
    pub id: String,
    pub res: String,
    pub threshold: u32,
}

impl IsoSpec {
    pub fn rule(&self) -> Arc<isolation::Rule> {
        Arc::new(isolation::Rule {
            id: self.id.clone(),
            resource: self.res.clone(),
            metric_type: isolation::MetricType::Concurrency,
            threshold: self.threshold,
        })
    }
}

#[derive(Serialize, Deserialize, Clone, Debug, PartialEq)]
pub struct SysSpec {
    pub id: String,
    /// 0 Load, 1 AvgRT, 2 Concurrency, 3 InboundQPS, 4 CpuUsage
    pub metric: u8,
    #[serde(with = "f64_json")]
    pub threshold: f64,
    /// 0 NoAdaptive, 1 BBR
    #[serde(default)]
    pub bbr: u8,
}

impl SysSpec {
    pub fn rule(&self) -> Arc<system::Rule> {
        Arc::new(system::Rule {
            id: self.id.clone(),
            metric_type: match self.metric {
                0 => system::MetricType::Load,
                1 => system::MetricType::AvgRT,
                2 => system::MetricType::Concurrency,
                3 => system::MetricType::InboundQPS,
                _ => system::MetricType::CpuUsage,
            },
            threshold: self.threshold,
            strategy: if self.bbr == 0 {
                system::AdaptiveStrategy::NoAdaptive
            } else {
                system::AdaptiveStrategy::BBR
            },
        })
    }
}

// ---------------------------------------------------------------------------------------------
// reset protocol and warm-up

/// Puts every process-global structure of sentinel-core into the state a fresh process has
/// (observationally). Must be the first thing a run does, before it loads rules.
pub fn reset_globals() {
    flow::clear_rules();
    cb::clear_rules();
    hotspot::clear_rules();
    isolation::clear_rules();
    system::clear_rules();
    cb::clear_state_change_listeners();
    stat::reset_resource_map();
    sentinel_core::system_metric::verif_set_readings(0.0, 0.0, 0);
    // the configuration is (meant to be) process-wide: every run starts from the default one
    sentinel_core::config::reset_global_config(sentinel_core::config::ConfigEntity::new());
}

/// Number of entries still open on the global inbound node (must be 0 between runs).
pub fn inbound_inflight() -> u32 {
    use sentinel_core::base::ConcurrencyStat;
    stat::inbound_node().current_concurrency()
}

/// Touches every lazy_static of sentinel-core on the calling (worker main) thread, so that no
/// run thread ever executes a lazy initialiser (which would create HashMaps and thereby shift
/// that thread's RandomState key counter). See DESIGN §3.2.
pub fn warm_up(epoch_ns: u64) {
    vc::set(epoch_ns);
    reset_globals();
    struct L;
    impl cb::StateChangeListener for L {}
    cb::register_state_change_listeners(vec![Arc::new(L)]);
    let res = "warmup".to_string();
    flow::load_rules(vec![
        FlowSpec::reject("w1", &res, 100.0, 0).rule(),
        FlowSpec::reject("w2", &res, 100.0, 3000).rule(),
        FlowSpec {
            ctrl: 1,
            ..FlowSpec::reject("w3", &res, 1000.0, 1000)
        }
        .rule(),
        FlowSpec {
            calc: 1,
            warm_period: 1,
            warm_cold: 3,
            ..FlowSpec::reject("w4", &res, 1000.0, 0)
        }
        .rule(),
        FlowSpec {
            calc: 2,
            mem: [10, 5, 1, 2],
            ..FlowSpec::reject("w5", &res, 1000.0, 0)
        }
        .rule(),
    ]);
    cb::load_rules(vec![
        BreakerSpec {
            id: "w".into(),
            res: res.clone(),
            strategy: 2,
            retry_ms: 1000,
            min_req: 1,
            interval_ms: 1000,
            buckets: 1,
            max_rt: 0,
            threshold: 1.0,
        }
        .rule(),
        BreakerSpec {
            id: "w2".into(),
            res: res.clone(),
            strategy: 0,
            retry_ms: 1000,
            min_req: 1,
            interval_ms: 1000,
            buckets: 1,
            max_rt: 10,
            threshold: 1.0,
        }
        .rule(),
        BreakerSpec {
            id: "w3".into(),
            res: res.clone(),
            strategy: 1,
            retry_ms: 1000,
            min_req: 1,
            interval_ms: 1000,
            buckets: 1,
            max_rt: 10,
            threshold: 1.0,
        }
        .rule(),
    ]);
    hotspot::load_rules(vec![
        HotspotSpec {
            id: "w".into(),
            res: res.clone(),
            metric: 1,
            ctrl: 0,
            index: 0,
            key: String::new(),
            threshold: 100,
            max_queue_ms: 0,
            burst: 0,
            duration_s: 1,
            capacity: 10,
            specific: vec![],
        }
        .rule(),
        HotspotSpec {
            id: "w2".into(),
            res: res.clone(),
            metric: 0,
            ctrl: 0,
            index: 0,
            key: String::new(),
            threshold: 100,
            max_queue_ms: 0,
            burst: 0,
            duration_s: 1,
            capacity: 10,
            specific: vec![],
        }
        .rule(),
        HotspotSpec {
            id: "w3".into(),
            res: res.clone(),
            metric: 1,
            ctrl: 1,
            index: 0,
            key: String::new(),
            threshold: 1000,
            max_queue_ms: 10,
            burst: 0,
            duration_s: 1,
            capacity: 10,
            specific: vec![],
        }
        .rule(),
    ]);
    isolation::load_rules(vec![IsoSpec {
        id: "w".into(),
        res: res.clone(),
        threshold: 100,
    }
    .rule()]);
    system::load_rules(vec![SysSpec {
        id: "w".into(),
        metric: 3,
        threshold: 1e9,
        bbr: 0,
    }
    .rule()]);
    flow::append_rule(FlowSpec::reject("w6", "warmup2", 5.0, 0).rule());
    hotspot::append_rule(
        HotspotSpec {
            id: "w4".into(),
            res: "warmup2".into(),
            metric: 0,
            ctrl: 0,
            index: 0,
            key: String::new(),
            threshold: 100,
            max_queue_ms: 0,
            burst: 0,
            duration_s: 1,
            capacity: 10,
            specific: vec![],
        }
        .rule(),
    );
    cb::append_rule(
        BreakerSpec {
            id: "w4".into(),
            res: "warmup2".into(),
            strategy: 2,
            retry_ms: 1000,
            min_req: 1,
            interval_ms: 1000,
            buckets: 1,
            max_rt: 0,
            threshold: 1.0,
        }
        .rule(),
    );
    isolation::append_rule(
        IsoSpec {
            id: "w2".into(),
            res: "warmup2".into(),
            threshold: 100,
        }
        .rule(),
    );
    system::append_rule(
        SysSpec {
            id: "w2".into(),
            metric: 2,
            threshold: 1e9,
            bbr: 1,
        }
        .rule(),
    );
    let _ = sentinel_core::base::registry_block_type(sentinel_core::base::BlockType::Other(250), "verif");
    let _ = format!("{}", sentinel_core::base::BlockType::Other(250));
    for inbound in [true, false] {
        for err in [false, true] {
            let b = EntryBuilder::new(res.clone())
                .with_traffic_type(if inbound {
                    TrafficType::Inbound
                } else {
                    TrafficType::Outbound
                })
                .with_args(Some(vec!["a".into()]));
            if let Ok(e) = b.build() {
                vc::advance(20 * MS);
                if err {
                    e.set_err(sentinel_core::Error::msg("x"));
                }
                e.exit();
            }
        }
    }
    let _ = EntryBuilder::new("warmup2".into()).build().map(|e| e.exit());
    let _ = flow::get_rules();
    let _ = cb::get_rules();
    let _ = hotspot::get_rules();
    let _ = isolation::get_rules();
    let _ = system::get_rules();
    let _ = sentinel_core::system_metric::get_total_memory_size();
    let _ = sentinel_core::utils::unix_time_unit_offset();
    let _ = sentinel_core::utils::format_time_millis(1_700_000_000_000);
    let _ = sentinel_core::base::nop_read_stat();
    let _ = sentinel_core::base::nop_write_stat();
    let _ = sentinel_core::config::app_name();
    vc::advance(30 * SEC);
    reset_globals();
}

// ---------------------------------------------------------------------------------------------
// entries

pub struct OpenEntry {
    pub id: u64,
    pub res: String,
    pub batch: u32,
    pub inbound: bool,
    pub start_ms: u64,
    pub args: Option<Vec<String>>,
    pub attachments: Option<Vec<(String, String)>>,
    pub entry: sentinel_core::base::EntryStrongPtr,
}

#[derive(Clone, Debug, Default)]
pub struct BlockInfo {
    pub block_type: String,
    pub msg: String,
    pub rule_id: Option<String>,
    pub snapshot: Option<String>,
    pub text: String,
}

pub fn parse_block(text: &str) -> BlockInfo {
    fn between<'a>(s: &'a str, a: &str, b: &str) -> Option<&'a str> {
        let i = s.find(a)? + a.len();
        let j = s[i..].find(b)? + i;
        Some(&s[i..j])
    }
    let block_type = between(text, "block_type: ", ",").unwrap_or("").to_string();
    let msg = between(text, "block_msg: \"", "\"").unwrap_or("").to_string();
    let rule_id = between(text, "rule: Some(Rule { id: \"", "\"").map(|s| s.to_string());
    let snapshot = text
        .find("snapshot_value: Some(")
        .map(|i| {
            let s = &text[i + "snapshot_value: Some(".len()..];
            s.trim_end_matches(" }").trim_end_matches(')').to_string()
        });
    BlockInfo {
        block_type,
        msg,
        rule_id,
        snapshot,
        text: text.to_string(),
    }
}

pub struct EnterObs {
    pub admitted: bool,
    pub id: u64,
    pub block: Option<BlockInfo>,
    pub t0_ns: u64,
    pub t1_ns: u64,
}

#[derive(Default)]
pub struct World {
    pub open: Vec<OpenEntry>,
    next_id: u64,
    pub ops: u64,
    pub sim_ns: u64,
}

impl World {
    /// Starts a run: sets the clock, resets the globals. `epoch_ns` must not be in the past of
    /// this process's virtual clock.
    pub fn start(epoch_ns: u64) -> World {
        let now = vc::now_ns();
        assert!(
            epoch_ns >= now,
            "HARNESS: epoch {} before process clock {}",
            epoch_ns,
            now
        );
        vc::set(epoch_ns);
        vc::reset_slept();
        reset_globals();
        let infl = inbound_inflight();
        assert!(infl == 0, "HARNESS: inbound node in-flight {} at run start", infl);
        World::default()
    }

    pub fn now_ns(&self) -> u64 {
        vc::now_ns()
    }
    pub fn now_ms(&self) -> u64 {
        vc::now_ms()
    }
    pub fn advance(&mut self, ns: u64) {
        vc::advance(ns);
        self.sim_ns += ns;
        self.ops += 1;
    }

    pub fn enter(
        &mut self,
        res: &str,
        batch: u32,
        inbound: bool,
        args: Option<Vec<String>>,
        attachments: Option<Vec<(String, String)>>,
    ) -> EnterObs {
        self.ops += 1;
        let t0 = vc::now_ns();
        let mut b = EntryBuilder::new(res.to_string())
            .with_batch_count(batch)
            .with_traffic_type(if inbound {
                TrafficType::Inbound
            } else {
                TrafficType::Outbound
            });
        if let Some(a) = &args {
            let l: ParamsList = a.clone();
            b = b.with_args(Some(l));
        }
        if let Some(a) = &attachments {
            let m: ParamsMap = a.iter().cloned().collect();
            b = b.with_attachments(Some(m));
        }
        let r = b.build();
        let t1 = vc::now_ns();
        self.sim_ns += t1 - t0;
        match r {
            Ok(entry) => {
                let id = self.next_id;
                self.next_id += 1;
                self.open.push(OpenEntry {
                    id,
                    res: res.to_string(),
                    batch,
                    inbound,
                    start_ms: t0 / MS,
                    args,
                    attachments,
                    entry,
                });
                EnterObs {
                    admitted: true,
                    id,
                    block: None,
                    t0_ns: t0,
                    t1_ns: t1,
                }
            }
            Err(e) => EnterObs {
                admitted: false,
                id: u64::MAX,
                block: Some(parse_block(&e.to_string())),
                t0_ns: t0,
                t1_ns: t1,
            },
        }
    }

    /// Exits the `k mod open.len()`-th open entry; returns it (already exited).
    pub fn exit_nth(&mut self, k: usize, with_err: bool) -> Option<OpenEntry> {
        if self.open.is_empty() {
            return None;
        }
        self.ops += 1;
        let i = k % self.open.len();
        let e = self.open.remove(i);
        if with_err {
            e.entry.set_err(sentinel_core::Error::msg("simulated downstream failure"));
        }
        e.entry.exit();
        Some(e)
    }

    /// Exits everything still open (end of run), oldest first.
    pub fn drain(&mut self) {
        while !self.open.is_empty() {
            let e = self.open.remove(0);
            e.entry.exit();
        }
    }
}
