//! C14 — concurrent entries share one statistics node, accounted without loss or excess.

use crate::common::{execute_sched, gen_schedule, shrink_schedule, Obs};
use crate::engine::{Budget, Cov, Prop, RunResult};
use crate::oracle_fail;
use crate::rng::Rng;
use crate::seams::vc;
use crate::world::{MS, SEC};
use sentinel_core::base::{ConcurrencyStat, MetricEvent, ReadStat, ResourceType, StatNode, TrafficType};
use sentinel_core::{stat, EntryBuilder};
use serde::{Deserialize, Serialize};
use serde_json::{json, Value};
use shuttle::sync::{Arc, Mutex};

#[derive(Serialize, Deserialize, Clone, Debug)]
pub struct Pair {
    pub inb: bool,
    pub n: u32,
    pub exit: bool,
}

#[derive(Serialize, Deserialize, Clone, Debug)]
pub struct Program {
    pub res: String,
    /// the resource exists before the threads start
    pub precreate: bool,
    pub tasks: Vec<Vec<Pair>>,
    /// a clock task that advances the virtual clock by this many ms at a scheduler-chosen point
    pub clock_step_ms: Option<u64>,
    /// further steps the clock task performs after the first one (a full lap of the 10 s ring among them)
    #[serde(default)]
    pub more_steps_ms: Vec<u64>,
}

pub struct C14;

impl Prop for C14 {
    fn id(&self) -> &'static str {
        "C14"
    }
    fn gap_ns(&self) -> u64 {
        100 * SEC
    }
    fn budget(&self, thorough: bool) -> Budget {
        if thorough {
            Budget { runs: 300_000, wall_s: 330 }
        } else {
            Budget { runs: 15_000, wall_s: 30 }
        }
    }
    fn needs_warm_up(&self) -> bool {
        false
    }
    fn engine(&self) -> &'static str {
        "sched"
    }
    fn classify_panic(&self, loc: &str, msg: &str) -> String {
        crate::common::classify(self.id(), loc, msg)
    }
    fn rule_text(&self) -> &'static str {
        "seeded thread programs: 2-3 simulated threads x 1-2 build/exit pairs (inbound/outbound, batch 1-3, some entries left open) on one fresh or pre-created resource, the virtual clock frozen inside a bucket or advanced over a bucket boundary by a clock task at a scheduler-chosen point; every Mutex/RwLock/atomic operation of sentinel-core is a scheduling point of our own seeded scheduler (uniform, PCT-style, preemption-sparse). After join: all threads saw the registered node, in-flight = un-exited entries, pass/complete/rt totals of the resource node and of the inbound node equal (frozen clock) or do not exceed (clock step) the sums over threads. Non-trivial = execution with >= 1 preemption; distinct = distinct (schedule, outcome) hash; distinct schedules are counted as abstract states."
    }
    fn components(&self) -> Value {
        json!({"real": ["sentinel-core (mechanically rewritten copy: std::sync/std::thread/lazy_static -> shuttle equivalents): EntryBuilder, slot chain, node storage, resource node, LeapArray, MetricBucket"],
               "stub": ["Mutex/RwLock/atomics/thread/lazy_static (shuttle 0.9.3 primitives, sequentially consistent)", "scheduler (own seeded implementation)", "clock (virtual, hook H1; optional clock task)", "getrandom (seeded)"]})
    }

    fn generate(&self, rng: &mut Rng, slot_ns: u64, avoid: bool) -> Value {
        let ntasks = rng.range(2, 3);
        let tasks: Vec<Vec<Pair>> = (0..ntasks)
            .map(|_| (0..rng.range(1, 2)).map(|_| Pair { inb: rng.chance(1, 2), n: rng.range(1, 3) as u32, exit: !rng.chance(1, 5) }).collect())
            .collect();
        let clock_step_ms = if rng.chance(1, 3) { Some(*rng.pick(&[1u64, 100, 499, 500, 501, 1000, 10_000])) } else { None };
        // one stepped program in three: a second step of about one lap of the 10 s ring, so that a
        // bucket written with response times before it is reused afterwards
        let more_steps_ms = if clock_step_ms.is_some() && rng.chance(1, 2) { vec![*rng.pick(&[10_000u64, 10_000, 9_500, 20_000])] } else { vec![] };
        // inside a bucket, 100..300 ms after a bucket start (so a frozen clock stays in one bucket)
        let epoch_ns = slot_ns - slot_ns % (10 * SEC) + rng.range(100, 300) * MS + if clock_step_ms.is_some() { rng.below(400) * MS } else { 0 };
        let program = Program { res: format!("c14_{:x}", rng.below(0xffffff)), precreate: avoid || rng.chance(1, 3), tasks, clock_step_ms, more_steps_ms };
        json!({"epoch_ns": epoch_ns, "schedule": gen_schedule(rng, 150), "program": program})
    }

    fn execute(&self, scenario: &Value, cov: &mut Cov) -> RunResult {
        let epoch_ns = scenario["epoch_ns"].as_u64().unwrap();
        let prog: Program = serde_json::from_value(scenario["program"].clone()).expect("program");
        cov.hit(if prog.precreate { "resource_precreated" } else { "resource_brand_new" });
        if prog.clock_step_ms.is_some() {
            cov.hit("clock_step_between_sync_ops");
        }
        if !prog.more_steps_ms.is_empty() {
            cov.hit("second_clock_step_of_a_ring_lap");
        }
        cov.sim_ns += (prog.clock_step_ms.unwrap_or(0) + prog.more_steps_ms.iter().sum::<u64>()) * MS;
        execute_sched(self.id(), "", scenario, 30_000, cov, move |obs: Obs| body(epoch_ns, &prog, obs))
    }

    fn shrink(&self, scenario: &Value) -> Vec<Value> {
        let mut out = shrink_schedule(scenario);
        let prog: Program = serde_json::from_value(scenario["program"].clone()).unwrap();
        if prog.tasks.len() > 2 {
            for i in 0..prog.tasks.len() {
                let mut p = prog.clone();
                p.tasks.remove(i);
                let mut c = scenario.clone();
                c["program"] = serde_json::to_value(p).unwrap();
                out.push(c);
            }
        }
        for i in 0..prog.tasks.len() {
            if prog.tasks[i].len() > 1 {
                let mut p = prog.clone();
                p.tasks[i].pop();
                let mut c = scenario.clone();
                c["program"] = serde_json::to_value(p).unwrap();
                out.push(c);
            }
        }
        if !prog.more_steps_ms.is_empty() {
            let mut p = prog.clone();
            p.more_steps_ms.clear();
            let mut c = scenario.clone();
            c["program"] = serde_json::to_value(p).unwrap();
            out.push(c);
        }
        if prog.clock_step_ms.is_some() {
            let mut p = prog.clone();
            p.clock_step_ms = None;
            p.more_steps_ms.clear();
            let mut c = scenario.clone();
            c["program"] = serde_json::to_value(p).unwrap();
            out.push(c);
        }
        out
    }
}

#[derive(Default)]
struct Tally {
    node_ptrs: Vec<usize>,
    pass: u64,
    complete: u64,
    open: u32,
    inb_pass: u64,
    inb_complete: u64,
    inb_open: u32,
    /// per exited entry: (virtual ns just after exit returned, upper bound of its response time in ms, inbound)
    rts: Vec<(u64, u64, bool)>,
}

fn body(epoch_ns: u64, prog: &Program, obs: Obs) {
    vc::set(epoch_ns);
    if prog.precreate {
        stat::get_or_create_resource_node(&prog.res, &ResourceType::Common);
    }
    let tally = Arc::new(Mutex::new(Tally::default()));
    let mut handles = vec![];
    for (ti, pairs) in prog.tasks.iter().enumerate() {
        let pairs = pairs.clone();
        let res = prog.res.clone();
        let tally = tally.clone();
        handles.push(shuttle::thread::spawn(move || {
            for p in pairs {
                let b = EntryBuilder::new(res.clone())
                    .with_batch_count(p.n)
                    .with_traffic_type(if p.inb { TrafficType::Inbound } else { TrafficType::Outbound });
                let before_build = vc::now_ns();
                match b.build() {
                    Ok(e) => {
                        let node = e.context().read().unwrap().stat_node();
                        let ptr = node.map(|n| Arc::as_ptr(&n) as *const () as usize).unwrap_or(0);
                        if p.exit {
                            e.exit();
                        }
                        let after_exit = vc::now_ns();
                        let mut t = tally.lock().unwrap();
                        if p.exit {
                            t.rts.push((after_exit, (after_exit - before_build + MS - 1) / MS, p.inb));
                        }
                        t.node_ptrs.push(ptr);
                        t.pass += p.n as u64;
                        if p.inb {
                            t.inb_pass += p.n as u64;
                        }
                        if p.exit {
                            t.complete += p.n as u64;
                            if p.inb {
                                t.inb_complete += p.n as u64;
                            }
                        } else {
                            t.open += 1;
                            if p.inb {
                                t.inb_open += 1;
                            }
                            // keep the entry alive but never exit it
                            std::mem::forget(e);
                        }
                    }
                    Err(e) => oracle_fail!("C14/entry-rejected-without-rules", "task {}: {}", ti, e),
                }
            }
        }));
    }
    if let Some(ms) = prog.clock_step_ms {
        let more = prog.more_steps_ms.clone();
        handles.push(shuttle::thread::spawn(move || {
            shuttle::thread::yield_now();
            vc::advance(ms * MS);
            shuttle::thread::yield_now();
            for m in more {
                vc::advance(m * MS);
                shuttle::thread::yield_now();
            }
        }));
    }
    for h in handles {
        h.join().unwrap();
    }
    // ---- oracle, sequential, after join
    let t = tally.lock().unwrap();
    let node = match stat::get_resource_node(&prog.res) {
        Some(n) => n,
        None => oracle_fail!("C14/no-node-registered", "resource {} has no node after {} entries", prog.res, t.node_ptrs.len()),
    };
    let reg = Arc::as_ptr(&node) as *const () as usize;
    for p in &t.node_ptrs {
        if *p != reg {
            let distinct: std::collections::BTreeSet<usize> = t.node_ptrs.iter().cloned().collect();
            oracle_fail!("C14/threads-saw-different-nodes", "{} entries were accounted on {} different nodes, at least one of them is not the registered node (orphaned: its statistics are lost)", t.node_ptrs.len(), distinct.len());
        }
    }
    let frozen = prog.clock_step_ms.is_none();
    let ten: Arc<dyn ReadStat> = node.generate_read_stat(20, 10_000).unwrap();
    let inb = stat::inbound_node();
    let inb_ten: Arc<dyn ReadStat> = inb.generate_read_stat(20, 10_000).unwrap();
    let checks: [(&str, u64, u64); 4] = [
        ("pass", ten.sum(MetricEvent::Pass), t.pass),
        ("complete", ten.sum(MetricEvent::Complete), t.complete),
        ("inbound-pass", inb_ten.sum(MetricEvent::Pass), t.inb_pass),
        ("inbound-complete", inb_ten.sum(MetricEvent::Complete), t.inb_complete),
    ];
    for (name, got, want) in checks {
        obs.lock().unwrap().push(got);
        if got > want {
            oracle_fail!(format!("C14/totals/{}-exceeds-recorded", name), "{} total {} > sum over threads {}", name, got, want);
        }
        if frozen && got < want {
            oracle_fail!(format!("C14/totals/{}-lost", name), "{} total {} < sum over threads {} although all activity fell into one bucket", name, got, want);
        }
    }
    // response-time totals never exceed what the entries still inside the 10 s window can have recorded
    let now = vc::now_ns();
    let window_start = now / MS / 500 * 500 - 9_500;
    for (name, reader, only_inb) in [("rt", &ten, false), ("inbound-rt", &inb_ten, true)] {
        let bound: u64 = t.rts.iter().filter(|(after, _, inb)| after / MS >= window_start && (!only_inb || *inb)).map(|(_, b, _)| *b).sum();
        let got = reader.sum(MetricEvent::Rt);
        if got > bound {
            oracle_fail!(format!("C14/totals/{}-exceeds-recorded", name), "{} total {} ms > {} ms, the most the completions inside the window can have recorded", name, got, bound);
        }
    }
    if frozen && ten.sum(MetricEvent::Rt) != 0 {
        oracle_fail!("C14/totals/rt", "rt total {} with a frozen clock", ten.sum(MetricEvent::Rt));
    }
    if node.current_concurrency() != t.open {
        oracle_fail!("C14/inflight", "in-flight {} but {} entries were left open", node.current_concurrency(), t.open);
    }
    if inb.current_concurrency() != t.inb_open {
        oracle_fail!("C14/inbound-inflight", "inbound in-flight {} but {} inbound entries were left open", inb.current_concurrency(), t.inb_open);
    }
}
