//! C08 (schedule part) — a cold warm-up rule stays cold when the entries that consult it arrive
//! from several threads at once: within one frozen instant the admissions never exceed the cold
//! allowance q/c by more than the checks that can be in flight at the same time (one per thread).
//! The sequential part of C08 (ramp, cooling, bounds over demand profiles) lives in seqsim.

use crate::common::{execute_sched, gen_schedule, shrink_schedule, Obs};
use crate::engine::{Budget, Cov, Prop, RunResult};
use crate::fam::{self, AnySpec};
use crate::oracle_fail;
use crate::rng::Rng;
use crate::seams::vc;
use crate::world::{FlowSpec, MS, SEC};
use sentinel_core::EntryBuilder;
use serde::{Deserialize, Serialize};
use serde_json::{json, Value};
use shuttle::sync::{Arc, Mutex};

#[derive(Serialize, Deserialize, Clone, Debug)]
pub struct Program {
    pub res: String,
    pub q: u32,
    /// cold factor (0 = default 3)
    pub c: u32,
    pub p: u32,
    /// requests per thread
    pub tasks: Vec<u8>,
}

pub struct C08S;

impl Prop for C08S {
    fn id(&self) -> &'static str {
        "C08"
    }
    fn gap_ns(&self) -> u64 {
        100 * SEC
    }
    fn budget(&self, thorough: bool) -> Budget {
        if thorough {
            Budget { runs: 100_000, wall_s: 120 }
        } else {
            Budget { runs: 5_000, wall_s: 20 }
        }
    }
    fn needs_warm_up(&self) -> bool {
        false
    }
    fn engine(&self) -> &'static str {
        "sched"
    }
    fn classify_panic(&self, loc: &str, msg: &str) -> String {
        crate::common::classify(self.id(), loc, msg)
    }
    fn rule_text(&self) -> &'static str {
        "schedule part of C08: a freshly loaded (cold) warm-up rule (q 12..90, cold factor default/3/4, period 5-10 s) on one resource; 2-3 simulated threads request 4-8 entries each at one frozen instant under our own seeded scheduler (every Mutex/RwLock/atomic operation of sentinel-core is a scheduling point); after join the number of admissions must not exceed floor(q/c) + threads + 1 (each thread can have one admission decided but not yet recorded) and at least one request must have been admitted. Non-trivial = execution with >= 1 preemption; distinct = distinct (schedule, outcome) hash."
    }
    fn components(&self) -> Value {
        json!({"real": ["sentinel-core (mechanically rewritten copy): flow manager, warm-up calculator, reject checker, slot chain, statistics"],
               "stub": ["Mutex/RwLock/atomics/thread/lazy_static (shuttle 0.9.3 primitives)", "scheduler (own seeded implementation)", "clock (virtual, hook H1, frozen)", "getrandom (seeded)"]})
    }

    fn generate(&self, rng: &mut Rng, slot_ns: u64, _avoid: bool) -> Value {
        let c = *rng.pick(&[0u32, 3, 4]);
        let q = *rng.pick(&[12u32, 24, 36, 60, 90]);
        let tasks: Vec<u8> = (0..rng.range(2, 3)).map(|_| rng.range(4, 8) as u8).collect();
        let epoch_ns = slot_ns - slot_ns % (10 * SEC) + rng.range(100, 300) * MS;
        let program = Program { res: format!("c08s_{:x}", rng.below(0xffffff)), q, c, p: *rng.pick(&[5u32, 10]), tasks };
        json!({"epoch_ns": epoch_ns, "schedule": gen_schedule(rng, 300), "program": program})
    }

    fn execute(&self, scenario: &Value, cov: &mut Cov) -> RunResult {
        let epoch_ns = scenario["epoch_ns"].as_u64().unwrap();
        let prog: Program = serde_json::from_value(scenario["program"].clone()).expect("program");
        cov.hit("cold_rule_consulted_by_several_threads");
        execute_sched(self.id(), "", scenario, 60_000, cov, move |obs: Obs| body(epoch_ns, &prog, obs))
    }

    fn shrink(&self, scenario: &Value) -> Vec<Value> {
        let mut out = shrink_schedule(scenario);
        let prog: Program = serde_json::from_value(scenario["program"].clone()).unwrap();
        if prog.tasks.len() > 2 {
            let mut p = prog.clone();
            p.tasks.pop();
            let mut c = scenario.clone();
            c["program"] = serde_json::to_value(p).unwrap();
            out.push(c);
        }
        out
    }
}

fn body(epoch_ns: u64, prog: &Program, obs: Obs) {
    vc::set(epoch_ns);
    let mut spec = FlowSpec::reject("warm", &prog.res, prog.q as f64, 0);
    spec.calc = 1;
    spec.warm_period = prog.p;
    spec.warm_cold = prog.c;
    fam::load_all(0, &[AnySpec::Flow(spec)]);
    let admitted = Arc::new(Mutex::new(0u32));
    let mut handles = vec![];
    for n in prog.tasks.iter() {
        let n = *n;
        let res = prog.res.clone();
        let admitted = admitted.clone();
        handles.push(shuttle::thread::spawn(move || {
            let mut held = vec![];
            for _ in 0..n {
                if let Ok(e) = EntryBuilder::new(res.clone()).build() {
                    *admitted.lock().unwrap() += 1;
                    held.push(e);
                }
            }
            for e in held {
                e.exit();
            }
        }));
    }
    for h in handles {
        h.join().unwrap();
    }
    let a = *admitted.lock().unwrap();
    obs.lock().unwrap().push(a as u64);
    // nothing of the code under test may be alive when the runtime tears the statics down
    fam::clear(0);
    let c = if prog.c == 0 { 3 } else { prog.c };
    let cold = prog.q / c;
    let bound = cold + prog.tasks.len() as u32 + 1;
    let offered: u32 = prog.tasks.iter().map(|x| *x as u32).sum();
    if a > bound {
        oracle_fail!("C08/sched/cold-rule-admits-more-than-the-cold-allowance", "{} of {} requests admitted at one instant by a cold rule with q={} c={} (cold allowance {}, {} threads)", a, offered, prog.q, c, cold, prog.tasks.len());
    }
    if a == 0 {
        oracle_fail!("C08/sched/cold-rule-admits-nothing", "none of {} requests admitted by a cold rule with q={} c={}", offered, prog.q, c);
    }
}
