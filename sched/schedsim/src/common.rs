//! Shared glue of the SCHED properties: run one scenario under its schedule, turn the runtime's
//! verdict into a violation signature, rewrite the schedule into its scripted (replay) form.

use crate::engine::{Cov, RunResult, Violation};
use crate::rng::{fnv1a, Rng};
use crate::sched::{run_once, SchedSpec, Verdict};
use serde_json::Value;
use std::sync::{Arc, Mutex};

pub type Obs = Arc<Mutex<Vec<u64>>>;

/// oracle failures are raised from inside the simulated program as panics with this prefix
#[macro_export]
macro_rules! oracle_fail {
    ($sig:expr, $($arg:tt)*) => {
        panic!("ORACLE {} :: {}", $sig, format!($($arg)*))
    };
}

pub fn gen_schedule(rng: &mut Rng, horizon: u32) -> SchedSpec {
    let seed = rng.next_u64();
    match rng.below(10) {
        0..=3 => SchedSpec::Uniform { seed },
        4..=6 => SchedSpec::Pct { seed, depth: rng.range(1, 3) as u32, horizon },
        _ => SchedSpec::Sparse { seed, k: rng.range(0, 3) as u32, horizon },
    }
}

pub fn execute_sched(
    prop_id: &str,
    qualifier: &str,
    scenario: &Value,
    max_steps: usize,
    cov: &mut Cov,
    body: impl Fn(Obs) + Send + Sync + 'static,
) -> RunResult {
    let spec: SchedSpec = serde_json::from_value(scenario["schedule"].clone()).expect("schedule");
    let obs: Obs = Arc::new(Mutex::new(vec![]));
    let o2 = obs.clone();
    let (verdict, log) = run_once(&spec, max_steps, move || body(o2.clone()));
    let mut words: Vec<u8> = vec![];
    for c in &log.choices {
        words.extend_from_slice(&c.to_le_bytes());
    }
    let sched_hash = fnv1a(&words);
    for w in obs.lock().unwrap().iter() {
        words.extend_from_slice(&w.to_le_bytes());
    }
    let trace_hash = fnv1a(&words);
    cov.add("scheduling_points", log.steps as u64);
    cov.add("preemptions", log.preemptions as u64);
    cov.add("deviations_from_default_policy", log.deviations.len() as u64);
    cov.hit(match &spec {
        SchedSpec::Uniform { .. } => "schedules_uniform",
        SchedSpec::Pct { .. } => "schedules_pct",
        SchedSpec::Sparse { .. } => "schedules_sparse",
        SchedSpec::Scripted { .. } => "schedules_scripted",
    });
    if log.preemptions == 1 {
        cov.hit("executions_with_exactly_1_preemption");
    } else if log.preemptions == 2 {
        cov.hit("executions_with_exactly_2_preemptions");
    }
    cov.state(sched_hash);
    cov.ops += log.steps as u64;
    cov.nontrivial = log.preemptions > 0;
    let violation = match verdict {
        Verdict::Clean => None,
        Verdict::Deadlock(m) => Some(Violation::new(with_q(classify(prop_id, "", &m), qualifier), log.steps as usize, m)),
        Verdict::StepLimit(m) => Some(Violation::new(format!("{}/no-termination-within-step-bound", prop_id), log.steps as usize, m)),
        Verdict::Panic { loc, msg } => {
            if let Some(rest) = msg.strip_prefix("ORACLE ") {
                let (sig, detail) = rest.split_once(" :: ").unwrap_or((rest, ""));
                Some(Violation::new(sig.to_string(), log.steps as usize, detail.to_string()))
            } else if msg.starts_with("HARNESS") {
                Some(Violation::new(format!("HARNESS/{}", msg), 0, msg))
            } else {
                Some(Violation::new(with_q(classify(prop_id, &loc, &msg), qualifier), log.steps as usize, format!("panic at {}: {}", loc, msg)))
            }
        }
    };
    let mut rr = RunResult::new(trace_hash, violation);
    if rr.violation.is_some() && !matches!(spec, SchedSpec::Scripted { .. }) {
        let mut rw = scenario.clone();
        rw["schedule"] = serde_json::to_value(SchedSpec::Scripted { dev: log.deviations.clone(), fair: true }).unwrap();
        rr.rewrite = Some(rw);
    }
    rr
}

fn with_q(base: String, q: &str) -> String {
    if q.is_empty() {
        base
    } else {
        format!("{}/{}", base, q)
    }
}

/// signature of a panic (also used to classify an aborted process from its stderr)
pub fn classify(prop_id: &str, loc: &str, msg: &str) -> String {
    if msg.starts_with("deadlock!") {
        // the runtime distinguishes a thread blocking on a lock it holds itself from a cycle of blocked tasks
        return if msg.contains("already holds") { format!("{}/deadlock/self-relock", prop_id) } else { format!("{}/deadlock/blocked-cycle", prop_id) };
    }
    if msg.contains("exceeded max_steps") {
        return format!("{}/no-termination-within-step-bound", prop_id);
    }
    if let Some(rest) = msg.strip_prefix("ORACLE ") {
        return rest.split_once(" :: ").map(|x| x.0).unwrap_or(rest).to_string();
    }
    // locations inside the generated tree: report relative to sentinel-core/src
    let loc = match loc.find(".gen/core-sched/src/") {
        Some(i) => format!("sentinel-core/src/{}", &loc[i + ".gen/core-sched/src/".len()..]),
        None => loc.to_string(),
    };
    format!("{}/panic@{}", prop_id, loc)
}

/// shrink candidates on the schedule: fewer deviations (scripted form only)
pub fn shrink_schedule(scenario: &Value) -> Vec<Value> {
    let mut out = vec![];
    if let Ok(SchedSpec::Scripted { dev, fair }) = serde_json::from_value::<SchedSpec>(scenario["schedule"].clone()) {
        if !dev.is_empty() {
            // all gone, halves, single drops
            let mut cands: Vec<Vec<(u32, u32)>> = vec![vec![]];
            if dev.len() > 2 {
                cands.push(dev[..dev.len() / 2].to_vec());
                cands.push(dev[dev.len() / 2..].to_vec());
            }
            for i in (0..dev.len()).rev() {
                let mut d = dev.clone();
                d.remove(i);
                cands.push(d);
            }
            for d in cands {
                let mut c = scenario.clone();
                c["schedule"] = serde_json::to_value(SchedSpec::Scripted { dev: d, fair }).unwrap();
                out.push(c);
            }
        }
    }
    out
}
