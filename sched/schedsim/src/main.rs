fn main(){}
