//! schedsim — engine SCHED (C14, C15, C16). Shares engine/rng/seams/world sources with seqsim; links the
//! mechanically rewritten sentinel-core (shuttle primitives).
#[path = "../../../sim/seqsim/src/engine.rs"]
mod engine;
#[path = "../../../sim/seqsim/src/rng.rs"]
mod rng;
#[path = "../../../sim/seqsim/src/seams.rs"]
mod seams;
#[path = "../../../sim/seqsim/src/world.rs"]
mod world;

#[path = "../../../sim/seqsim/src/fam.rs"]
mod fam;

mod common;
mod s08;
mod s11;
mod s14;
mod s15;
mod s16;
mod sched;

use engine::{BatchOpts, Prop};
use serde_json::json;

fn all_props() -> Vec<&'static dyn Prop> {
    vec![&s08::C08S, &s11::C11S, &s14::C14, &s15::C15, &s16::C16]
}

fn find(id: &str) -> &'static dyn Prop {
    match all_props().into_iter().find(|p| p.id() == id) {
        Some(p) => p,
        None => {
            eprintln!("unknown property {}", id);
            std::process::exit(2);
        }
    }
}

fn env_u64(k: &str) -> Option<u64> {
    std::env::var(k).ok().and_then(|v| v.parse().ok())
}

fn classify(prop_id: &str, loc: &str, msg: &str) -> String {
    common::classify(prop_id, loc, msg)
}

fn main() {
    let _ = engine::CLASSIFY.set(classify);
    let args: Vec<String> = std::env::args().collect();
    if args.len() < 2 {
        eprintln!("usage: schedsim batch <prop> quick|thorough | worker .. | one <prop> <file> | replay <file> | gen <prop> <idx>");
        std::process::exit(2);
    }
    match args[1].as_str() {
        "batch" => {
            let prop = find(&args[2]);
            let thorough = args.get(3).map(|s| s == "thorough").unwrap_or(false);
            let opts = BatchOpts {
                thorough,
                seed: env_u64("VERIF_SEED").unwrap_or(engine::DEFAULT_SEED),
                workers: env_u64("VERIF_WORKERS").unwrap_or(16).max(1),
                runs_override: env_u64("VERIF_RUNS"),
                wall_override: env_u64("VERIF_WALL_S"),
                write_evidence: std::env::var("VERIF_NO_EVIDENCE").is_err(),
                from: env_u64("VERIF_FROM").unwrap_or(0),
            };
            std::process::exit(engine::batch_main(prop, opts));
        }
        "worker" => {
            let prop = find(&args[2]);
            let p = |i: usize| args[i].parse::<u64>().unwrap();
            engine::worker_main(prop, p(3), p(4), p(5), p(6), args[7].parse::<u128>().unwrap(), args[8] == "1");
        }
        "one" => {
            let prop = find(&args[2]);
            let sc: serde_json::Value = serde_json::from_slice(&std::fs::read(&args[3]).expect("read scenario")).expect("parse scenario");
            let (v, th, cov, rw) = engine::one_main(prop, &sc);
            let out = match v {
                Some(v) => json!({"signature": v.signature, "detail": v.detail, "at_op": v.at_op, "trace_hash": th, "counters": cov.counters, "rewrite": rw}),
                None => json!({"signature": null, "detail": "", "at_op": -1, "trace_hash": th, "counters": cov.counters, "rewrite": rw}),
            };
            println!("RESULT {}", out);
        }
        "replay" => {
            std::process::exit(engine::replay_main(&all_props(), &args[2]));
        }
        "gen" => {
            let prop = find(&args[2]);
            let idx: u64 = args[3].parse().unwrap();
            let seed = env_u64("VERIF_SEED").unwrap_or(engine::DEFAULT_SEED);
            let sc = engine::make_scenario(prop, seed, idx, false);
            println!("{}", serde_json::to_string_pretty(&sc).unwrap());
        }
        "trace" => {
            let prop = find(&args[2]);
            let p = |i: usize| args[i].parse::<u64>().unwrap();
            engine::trace_main(prop, env_u64("VERIF_SEED").unwrap_or(engine::DEFAULT_SEED), p(3), p(4), p(5));
        }
        x => {
            eprintln!("unknown command {}", x);
            std::process::exit(2);
        }
    }
}
