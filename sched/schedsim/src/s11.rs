//! C11 (schedule part) — a reload that leaves a resource's rules equal must be invisible to
//! entries that run concurrently with it: at every instant of the reload the unchanged rule is in
//! force with its accumulated state. The sequential, differential part of C11 lives in seqsim.

use crate::common::{execute_sched, gen_schedule, shrink_schedule, Obs};
use crate::engine::{Budget, Cov, Prop, RunResult};
use crate::fam::{self, AnySpec};
use crate::oracle_fail;
use crate::rng::Rng;
use crate::seams::vc;
use crate::world::{BreakerSpec, FlowSpec, HotspotSpec, MS, SEC};
use sentinel_core::{circuitbreaker as cb, EntryBuilder};
use serde::{Deserialize, Serialize};
use serde_json::{json, Value};
use shuttle::sync::{Arc, Mutex};

#[derive(Serialize, Deserialize, Clone, Debug)]
pub struct Program {
    /// 0: flow reject rule with threshold 0; 1: hotspot QPS rule with threshold 0; 2: breaker tripped Open (retry far away)
    pub variant: u8,
    pub target: String,
    /// 0 load-all, 1 load-for-resource
    pub mode: u8,
    pub others_before: Vec<AnySpec>,
    pub others_after: Vec<AnySpec>,
    /// number of entries each racing entry thread requests on the target
    pub entry_tasks: Vec<u8>,
    /// a second reloading thread (same reload again)
    pub two_reloaders: bool,
    /// "slip" programs: the target has no rule at the start; one thread loads everything (target
    /// rule included) while another loads the equal target rule for the resource alone and then
    /// uses up its whole allowance (threshold 1 / one failure opens the breaker). Updates are
    /// serialised, so in every order the allowance must stay used up after both have returned.
    #[serde(default)]
    pub slip: bool,
}

pub struct C11S;

fn slip_rule(variant: u8, res: &str, id: &str) -> AnySpec {
    match variant {
        0 => AnySpec::Flow(FlowSpec::reject(id, res, 1.0, 3000)),
        1 => AnySpec::Hot(HotspotSpec { id: id.into(), res: res.into(), metric: 1, ctrl: 0, index: 0, key: String::new(), threshold: 1, max_queue_ms: 0, burst: 0, duration_s: 1, capacity: 0, specific: vec![] }),
        _ => AnySpec::Breaker(BreakerSpec { id: id.into(), res: res.into(), strategy: 2, retry_ms: 600_000, min_req: 1, interval_ms: 10_000, buckets: 1, max_rt: 0, threshold: 1.0 }),
    }
}

fn target_rule(variant: u8, res: &str, id: &str) -> AnySpec {
    match variant {
        0 => AnySpec::Flow(FlowSpec::reject(id, res, 0.0, 0)),
        1 => AnySpec::Hot(HotspotSpec { id: id.into(), res: res.into(), metric: 1, ctrl: 0, index: 0, key: String::new(), threshold: 0, max_queue_ms: 0, burst: 0, duration_s: 1, capacity: 0, specific: vec![] }),
        _ => AnySpec::Breaker(BreakerSpec { id: id.into(), res: res.into(), strategy: 2, retry_ms: 600_000, min_req: 1, interval_ms: 10_000, buckets: 1, max_rt: 0, threshold: 1.0 }),
    }
}

fn other_rule(rng: &mut Rng, fam: usize, j: u64) -> AnySpec {
    let res = format!("c11s_o{}", rng.below(2));
    let id = format!("o{}", j);
    match fam {
        0 => AnySpec::Flow(FlowSpec::reject(&id, &res, rng.range(1, 9) as f64, *rng.pick(&[0u32, 3000]))),
        2 => AnySpec::Hot(HotspotSpec { id, res, metric: rng.below(2) as u8, ctrl: 0, index: 0, key: String::new(), threshold: rng.range(1, 9), max_queue_ms: 0, burst: 0, duration_s: 1, capacity: 0, specific: vec![] }),
        _ => AnySpec::Breaker(BreakerSpec { id, res, strategy: rng.below(3) as u8, retry_ms: 1000, min_req: rng.range(1, 5), interval_ms: 1000, buckets: 1, max_rt: 10, threshold: 1.0 }),
    }
}

impl Prop for C11S {
    fn id(&self) -> &'static str {
        "C11"
    }
    fn gap_ns(&self) -> u64 {
        100 * SEC
    }
    fn budget(&self, thorough: bool) -> Budget {
        if thorough {
            Budget { runs: 150_000, wall_s: 180 }
        } else {
            Budget { runs: 6_000, wall_s: 20 }
        }
    }
    fn needs_warm_up(&self) -> bool {
        false
    }
    fn engine(&self) -> &'static str {
        "sched"
    }
    fn classify_panic(&self, loc: &str, msg: &str) -> String {
        crate::common::classify(self.id(), loc, msg)
    }
    fn rule_text(&self) -> &'static str {
        "schedule part of C11: a target resource whose single rule rejects everything by its state (flow reject threshold 0, hotspot QPS threshold 0, or a breaker tripped Open with the retry timeout far away, clock frozen) is reloaded by one or two simulated threads (load-all or load-for-resource, equal target rule under a new id, unrelated resources changed) while 1-2 other simulated threads request entries on it, under our own seeded scheduler; every request must be rejected in every interleaving, also after the reload, and the breaker must still be Open. Slip programs: the target starts without a rule, one thread loads everything incl. the target's rule (or loads it for the resource alone) while another loads the equal rule for the target alone and then uses up its allowance (threshold 1, or one failure that opens the breaker); updates being serialised, the allowance must stay used up in every interleaving. Non-trivial = execution with >= 1 preemption; distinct = distinct (schedule, outcome) hash."
    }
    fn components(&self) -> Value {
        json!({"real": ["sentinel-core (mechanically rewritten copy): flow / hotspot / circuit-breaker managers, slots, EntryBuilder"],
               "stub": ["Mutex/RwLock/atomics/thread/lazy_static (shuttle 0.9.3 primitives)", "scheduler (own seeded implementation)", "clock (virtual, hook H1, frozen)", "getrandom (seeded)"]})
    }

    fn generate(&self, rng: &mut Rng, slot_ns: u64, _avoid: bool) -> Value {
        let variant = rng.below(3) as u8;
        let fam = [0usize, 2, 1][variant as usize];
        let mut j = 0;
        let mut set = |rng: &mut Rng| -> Vec<AnySpec> {
            (0..rng.range(0, 3))
                .map(|_| {
                    j += 1;
                    other_rule(rng, fam, j)
                })
                .collect()
        };
        let others_before = set(rng);
        let others_after = set(rng);
        let entry_tasks: Vec<u8> = (0..rng.range(1, 2)).map(|_| rng.range(1, 2) as u8).collect();
        let epoch_ns = slot_ns - slot_ns % (10 * SEC) + rng.range(100, 300) * MS;
        let program = Program { variant, target: format!("c11s_{:x}", rng.below(0xffffff)), mode: rng.below(2) as u8, others_before, others_after, entry_tasks, two_reloaders: rng.chance(1, 4), slip: rng.chance(1, 3) };
        json!({"epoch_ns": epoch_ns, "schedule": gen_schedule(rng, 200), "program": program})
    }

    fn execute(&self, scenario: &Value, cov: &mut Cov) -> RunResult {
        let epoch_ns = scenario["epoch_ns"].as_u64().unwrap();
        let prog: Program = serde_json::from_value(scenario["program"].clone()).expect("program");
        cov.hit(["variant_flow_threshold0", "variant_hotspot_threshold0", "variant_breaker_open"][prog.variant as usize % 3]);
        cov.hit(if prog.mode == 0 { "reload_load_all" } else { "reload_load_for_resource" });
        if prog.slip {
            cov.hit("slip_two_updaters_then_use");
            return execute_sched(self.id(), "", scenario, 60_000, cov, move |obs: Obs| slip_body(epoch_ns, &prog, obs));
        }
        execute_sched(self.id(), "", scenario, 60_000, cov, move |obs: Obs| body(epoch_ns, &prog, obs))
    }

    fn shrink(&self, scenario: &Value) -> Vec<Value> {
        let mut out = shrink_schedule(scenario);
        let prog: Program = serde_json::from_value(scenario["program"].clone()).unwrap();
        let mut push = |p: Program| {
            let mut c = scenario.clone();
            c["program"] = serde_json::to_value(p).unwrap();
            out.push(c);
        };
        if prog.two_reloaders && !prog.slip {
            let mut p = prog.clone();
            p.two_reloaders = false;
            push(p);
        }
        if prog.entry_tasks.len() > 1 {
            let mut p = prog.clone();
            p.entry_tasks.pop();
            push(p);
        }
        if !prog.others_before.is_empty() {
            let mut p = prog.clone();
            p.others_before.clear();
            push(p);
        }
        if !prog.others_after.is_empty() {
            let mut p = prog.clone();
            p.others_after.clear();
            push(p);
        }
        out
    }
}

fn request(res: &str) -> bool {
    match EntryBuilder::new(res.to_string()).with_args(Some(vec!["a".into()])).build() {
        Ok(e) => {
            e.exit();
            true
        }
        Err(_) => false,
    }
}

/// one request that uses up the target's allowance: admitted, and (breaker variant) completed with an error
fn use_up(variant: u8, res: &str) -> bool {
    match EntryBuilder::new(res.to_string()).with_args(Some(vec!["a".into()])).build() {
        Ok(e) => {
            if variant == 2 {
                e.set_err(sentinel_core::Error::msg("simulated downstream failure"));
            }
            e.exit();
            true
        }
        Err(_) => false,
    }
}

fn slip_body(epoch_ns: u64, prog: &Program, obs: Obs) {
    vc::set(epoch_ns);
    let variant = prog.variant % 3;
    let fam = [0usize, 2, 1][variant as usize];
    let name = ["flow-threshold1", "hotspot-threshold1", "breaker-one-failure"][variant as usize];
    fam::load_all(fam, &prog.others_before);
    let used = Arc::new(Mutex::new(0u32));
    let mut handles = vec![];
    {
        let prog = prog.clone();
        handles.push(shuttle::thread::spawn(move || {
            if prog.mode == 0 {
                let mut all = prog.others_after.clone();
                all.insert(0, slip_rule(variant, &prog.target, "t_all"));
                fam::load_all(fam, &all);
            } else {
                // the other updater, too, loads for the resource alone
                let _ = fam::load_res(fam, &prog.target, &[slip_rule(variant, &prog.target, "t_all")]);
            }
        }));
    }
    {
        let prog = prog.clone();
        let used = used.clone();
        handles.push(shuttle::thread::spawn(move || {
            let _ = fam::load_res(fam, &prog.target, &[slip_rule(variant, &prog.target, "t_res")]);
            if use_up(variant, &prog.target) {
                *used.lock().unwrap() += 1;
            }
        }));
    }
    for h in handles {
        h.join().unwrap();
    }
    let u = *used.lock().unwrap();
    obs.lock().unwrap().push(u as u64);
    let after = request(&prog.target);
    let open = if variant == 2 { cb::get_breakers_of_resource(&prog.target).iter().all(|b| b.current_state() == cb::State::Open) } else { true };
    let n = fam::get_res(fam, &prog.target).map(|v| v.len()).unwrap_or(0);
    fam::clear(fam);
    if n == 0 {
        oracle_fail!(format!("C11/sched/{}/rule-lost-by-concurrent-updates", name), "both updates carried the target's rule, none is reported afterwards");
    }
    if u == 0 {
        oracle_fail!(format!("C11/sched/{}/fresh-rule-rejects-first-request", name), "the first request after loading the rule for the resource was rejected");
    }
    if after {
        oracle_fail!(format!("C11/sched/{}/state-lost-by-concurrent-equal-update", name), "the allowance used after load-for-resource was forgotten when a concurrent load-all carrying the equal rule finished");
    }
    if !open {
        oracle_fail!("C11/sched/breaker-one-failure/breaker-closed-by-concurrent-equal-update", "breaker opened after load-for-resource, Closed after a concurrent load-all with the equal rule finished");
    }
}

fn body(epoch_ns: u64, prog: &Program, obs: Obs) {
    vc::set(epoch_ns);
    let fam = [0usize, 2, 1][prog.variant as usize % 3];
    let name = ["flow-threshold0", "hotspot-threshold0", "breaker-open"][prog.variant as usize % 3];
    let mut initial = prog.others_before.clone();
    initial.push(target_rule(prog.variant, &prog.target, "t"));
    fam::load_all(fam, &initial);
    if prog.variant == 2 {
        // trip the breaker: one admitted entry completes with an error
        match EntryBuilder::new(prog.target.clone()).build() {
            Ok(e) => {
                e.set_err(sentinel_core::Error::msg("simulated downstream failure"));
                e.exit();
            }
            Err(_) => oracle_fail!("HARNESS/c11s-setup", "entry rejected while the breaker is Closed"),
        }
    }
    if request(&prog.target) {
        oracle_fail!("HARNESS/c11s-setup", "target admits before the race ({})", name);
    }
    let admitted = Arc::new(Mutex::new(0u32));
    let mut handles = vec![];
    let reloaders = if prog.two_reloaders { 2 } else { 1 };
    for k in 0..reloaders {
        let prog = prog.clone();
        handles.push(shuttle::thread::spawn(move || {
            let twin = target_rule(prog.variant, &prog.target, &format!("t_reloaded{}", k));
            if prog.mode == 0 {
                let mut all = prog.others_after.clone();
                all.insert(0, twin);
                fam::load_all(fam, &all);
            } else {
                let _ = fam::load_res(fam, &prog.target, &[twin]);
                for r in ["c11s_o0", "c11s_o1"] {
                    let specs: Vec<AnySpec> = prog.others_after.iter().filter(|x| x.res() == r).cloned().collect();
                    let _ = fam::load_res(fam, &r.to_string(), &specs);
                }
            }
        }));
    }
    for n in prog.entry_tasks.iter() {
        let n = *n;
        let res = prog.target.clone();
        let admitted = admitted.clone();
        handles.push(shuttle::thread::spawn(move || {
            for _ in 0..n {
                if request(&res) {
                    *admitted.lock().unwrap() += 1;
                }
            }
        }));
    }
    for h in handles {
        h.join().unwrap();
    }
    let a = *admitted.lock().unwrap();
    obs.lock().unwrap().push(a as u64);
    let after = request(&prog.target);
    let still_open = if prog.variant == 2 { cb::get_breakers_of_resource(&prog.target).iter().all(|b| b.current_state() == cb::State::Open) } else { true };
    // nothing of the code under test may be alive when the runtime tears the statics down
    fam::clear(fam);
    if a > 0 {
        oracle_fail!(format!("C11/sched/{}/entry-admitted-during-reload-of-equal-rule", name), "{} request(s) admitted while another thread re-loaded an equal rule set", a);
    }
    if after {
        oracle_fail!(format!("C11/sched/{}/entry-admitted-after-reload-of-equal-rule", name), "the rule's state was lost by the reload");
    }
    if !still_open {
        oracle_fail!("C11/sched/breaker-open/breaker-not-open-after-reload", "breaker state changed by a reload of an equal rule");
    }
}
