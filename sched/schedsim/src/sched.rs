//! Engine SCHED: our own implementation of `shuttle::scheduler::Scheduler`. Every choice comes
//! from the scenario's PRNG stream; every execution is recorded as *default policy + explicit
//! deviations* ("at step s run task t"), which is what gets minimised and replayed.
//!
//! Default policy: keep running the current task while it is runnable and has not asked to
//! yield; otherwise run, among the runnable tasks other than the current one, the one that has not
//! run for the longest time (ties: lowest id) - a spin-wait (`try_lock` / `yield_now` loops in
//! sentinel-core) therefore cannot starve the task it is waiting for, whatever the number of
//! spinners. (The first version of this rule took the lowest id, under which two spinning tasks
//! could hand the processor to each other for ever while the lock holder had a higher id: a
//! step-bound verdict that was an artefact of the scheduler, see DESIGN §10.3.) The current task is
//! chosen again only if it is the only runnable one.

use crate::rng::Rng;
use serde::{Deserialize, Serialize};
use shuttle::scheduler::{Schedule, Scheduler, Task, TaskId};
use std::sync::{Arc, Mutex};

#[derive(Serialize, Deserialize, Clone, Debug, PartialEq)]
#[serde(tag = "kind")]
pub enum SchedSpec {
    /// uniform random choice among runnable tasks at every scheduling point
    Uniform { seed: u64 },
    /// PCT-style: random initial priorities, `depth` priority-change points among the first `horizon`
    /// decision points (scheduling points with more than one runnable task)
    Pct { seed: u64, depth: u32, horizon: u32 },
    /// default policy plus `k` preemptions at uniformly drawn decision points below `horizon`
    Sparse { seed: u64, k: u32, horizon: u32 },
    /// default policy plus the listed deviations (step, task id): the replay / minimisation form.
    /// `fair`: which default policy the deviations are relative to (see `default_choice`); replay files
    /// recorded before the fair rule existed do not carry the field and replay under the old rule
    Scripted {
        dev: Vec<(u32, u32)>,
        #[serde(default)]
        fair: bool,
    },
}

#[derive(Default, Debug, Clone)]
pub struct SchedLog {
    /// task chosen at every scheduling point
    pub choices: Vec<u32>,
    /// points where the choice differs from the default policy
    pub deviations: Vec<(u32, u32)>,
    /// context switches away from a task that was still runnable and not yielding
    pub preemptions: u32,
    pub steps: u32,
    pub max_runnable: u32,
}

pub struct SeededScheduler {
    spec: SchedSpec,
    rng: Rng,
    started: bool,
    step: u32,
    /// decision points seen so far: scheduling points at which more than one task was runnable
    /// (sequential set-up phases of a program do not count)
    dp: u32,
    prio: Vec<u64>,
    /// step at which each task was last chosen (fair choice among the tasks a yielding task hands over to)
    last_run: Vec<u32>,
    fair: bool,
    next_low_prio: u64,
    change_points: Vec<u32>,
    sparse_points: Vec<u32>,
    pub log: Arc<Mutex<SchedLog>>,
}

impl SeededScheduler {
    pub fn new(spec: SchedSpec, log: Arc<Mutex<SchedLog>>) -> SeededScheduler {
        let seed = match &spec {
            SchedSpec::Uniform { seed } | SchedSpec::Pct { seed, .. } | SchedSpec::Sparse { seed, .. } => *seed,
            SchedSpec::Scripted { .. } => 1,
        };
        let mut rng = Rng::new(seed);
        let mut change_points = vec![];
        let mut sparse_points = vec![];
        match &spec {
            SchedSpec::Pct { depth, horizon, .. } => {
                for _ in 0..*depth {
                    change_points.push(rng.below((*horizon).max(1) as u64) as u32);
                }
            }
            SchedSpec::Sparse { k, horizon, .. } => {
                for _ in 0..*k {
                    sparse_points.push(rng.below((*horizon).max(1) as u64) as u32);
                }
            }
            _ => {}
        }
        let fair = !matches!(&spec, SchedSpec::Scripted { fair: false, .. });
        SeededScheduler { spec, rng, started: false, step: 0, dp: 0, prio: vec![], last_run: vec![], fair, next_low_prio: 1 << 19, change_points, sparse_points, log }
    }

    fn default_choice(&self, runnable: &[u32], current: Option<u32>, yielding: bool) -> u32 {
        if let Some(c) = current {
            if !yielding && runnable.contains(&c) {
                return c;
            }
            let others = runnable.iter().filter(|t| **t != c);
            let pick = if self.fair {
                // longest-waiting first (a task that never ran counts as step 0), ties by id
                others.min_by_key(|t| (self.last_run.get(**t as usize).cloned().unwrap_or(0), **t))
            } else {
                others.min()
            };
            if let Some(o) = pick {
                return *o;
            }
            return c;
        }
        *runnable.iter().min().unwrap()
    }

    fn prio_of(&mut self, t: u32) -> u64 {
        while self.prio.len() <= t as usize {
            let p = self.rng.next_u64() | (1 << 40);
            self.prio.push(p);
        }
        self.prio[t as usize]
    }
}

impl Scheduler for SeededScheduler {
    fn new_execution(&mut self) -> Option<Schedule> {
        if self.started {
            return None;
        }
        self.started = true;
        Some(Schedule::new(0))
    }

    fn next_task(&mut self, runnable_tasks: &[&Task], current_task: Option<TaskId>, is_yielding: bool) -> Option<TaskId> {
        let runnable: Vec<u32> = runnable_tasks.iter().map(|t| usize::from(t.id()) as u32).collect();
        let current: Option<u32> = current_task.map(|t| usize::from(t) as u32);
        let def = self.default_choice(&runnable, current, is_yielding);
        let step = self.step;
        // PCT change points and sparse preemptions are placed on decision points, not raw steps
        let contested = runnable.len() > 1;
        let dp = self.dp;
        if contested {
            self.dp += 1;
        }
        let others: Vec<u32> = match current {
            Some(c) => runnable.iter().cloned().filter(|t| *t != c).collect(),
            None => runnable.clone(),
        };
        let choice = match &self.spec {
            SchedSpec::Uniform { .. } => {
                // a yielding task is not re-chosen while another task is runnable (spin-waits cannot livelock)
                let pool: &Vec<u32> = if is_yielding && !others.is_empty() { &others } else { &runnable };
                pool[self.rng.below(pool.len() as u64) as usize]
            }
            SchedSpec::Pct { .. } => {
                if is_yielding {
                    // a task that spins must not keep its priority: it drops below everything that ran so far
                    if let Some(c) = current {
                        let _ = self.prio_of(c);
                        self.next_low_prio = self.next_low_prio.saturating_sub(1).max(1);
                        self.prio[c as usize] = self.next_low_prio;
                    }
                }
                if contested && self.change_points.contains(&dp) {
                    if let Some(c) = current {
                        // demote the running task below everything else
                        let _ = self.prio_of(c);
                        self.prio[c as usize] = self.rng.below(1 << 20);
                    }
                }
                let pool: Vec<u32> = if is_yielding && !others.is_empty() { others.clone() } else { runnable.clone() };
                let mut best = pool[0];
                let mut bp = 0u64;
                for t in pool {
                    let p = self.prio_of(t);
                    if p >= bp {
                        bp = p;
                        best = t;
                    }
                }
                best
            }
            SchedSpec::Sparse { .. } => {
                if contested && self.sparse_points.contains(&dp) && !others.is_empty() {
                    others[self.rng.below(others.len() as u64) as usize]
                } else {
                    def
                }
            }
            SchedSpec::Scripted { dev, .. } => match dev.iter().find(|(s, _)| *s == step) {
                Some((_, t)) if runnable.contains(t) => *t,
                _ => def,
            },
        };
        {
            let mut log = self.log.lock().unwrap();
            log.choices.push(choice);
            if choice != def {
                log.deviations.push((step, choice));
            }
            if let Some(c) = current {
                if choice != c && runnable.contains(&c) && !is_yielding {
                    log.preemptions += 1;
                }
            }
            log.steps = step + 1;
            log.max_runnable = log.max_runnable.max(runnable.len() as u32);
        }
        while self.last_run.len() <= choice as usize {
            self.last_run.push(0);
        }
        self.last_run[choice as usize] = step + 1;
        self.step += 1;
        Some(TaskId::from(choice as usize))
    }

    fn next_u64(&mut self) -> u64 {
        self.rng.next_u64()
    }
}

pub enum Verdict {
    Clean,
    Deadlock(String),
    Panic { loc: String, msg: String },
    StepLimit(String),
}

/// Runs `body` once under the given schedule on the current OS thread. The body must do all its
/// checking by panicking with a message starting with "ORACLE " (oracle failure) — every other
/// panic is a panic of the code under test or the runtime's deadlock / step-limit verdict.
pub fn run_once(spec: &SchedSpec, max_steps: usize, body: impl Fn() + Send + Sync + 'static) -> (Verdict, SchedLog) {
    let log = Arc::new(Mutex::new(SchedLog::default()));
    let sched = SeededScheduler::new(spec.clone(), log.clone());
    let mut cfg = shuttle::Config::new();
    cfg.max_steps = shuttle::MaxSteps::FailAfter(max_steps);
    cfg.failure_persistence = shuttle::FailurePersistence::None;
    cfg.silence_warnings = true;
    cfg.stack_size = 512 * 1024;
    let runner = shuttle::Runner::new(sched, cfg);
    let _ = crate::seams::take_last_panic();
    let r = std::panic::catch_unwind(std::panic::AssertUnwindSafe(|| {
        runner.run(body);
    }));
    let l = log.lock().unwrap().clone();
    match r {
        Ok(_) => (Verdict::Clean, l),
        Err(payload) => {
            let (loc, msg) = crate::seams::take_last_panic().unwrap_or_else(|| {
                let m = if let Some(s) = payload.downcast_ref::<&str>() {
                    s.to_string()
                } else if let Some(s) = payload.downcast_ref::<String>() {
                    s.clone()
                } else {
                    "?".into()
                };
                ("?".into(), m)
            });
            if msg.starts_with("deadlock!") {
                (Verdict::Deadlock(msg), l)
            } else if msg.contains("exceeded max_steps") || msg.contains("max_steps") {
                (Verdict::StepLimit(msg), l)
            } else {
                (Verdict::Panic { loc, msg }, l)
            }
        }
    }
}
