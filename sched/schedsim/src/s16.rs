//! C16 — circuit-breaker transitions are atomic under concurrency: one probe, one winner.

use crate::common::{execute_sched, gen_schedule, shrink_schedule, Obs};
use crate::engine::{Budget, Cov, Prop, RunResult};
use crate::oracle_fail;
use crate::rng::Rng;
use crate::seams::vc;
use crate::world::{BreakerSpec, MS, SEC};
use sentinel_core::base::{EntryStrongPtr, Snapshot};
use sentinel_core::{circuitbreaker as cb, EntryBuilder};
use serde::{Deserialize, Serialize};
use serde_json::{json, Value};
use shuttle::sync::{Arc, Mutex};

#[derive(Serialize, Deserialize, Clone, Debug)]
#[serde(tag = "t")]
pub enum TaskOp {
    /// request an entry and keep it open
    Enter,
    /// request an entry and, if admitted, complete it (ok or with error)
    EnterComplete { err: bool },
    /// complete the probe entry that was admitted during the sequential set-up (S3)
    CompleteProbe { err: bool },
    /// complete the j-th entry that was admitted while the breaker was still Closed
    CompleteStale { j: usize, err: bool },
}

#[derive(Serialize, Deserialize, Clone, Debug)]
pub struct Program {
    /// 1: Open, retry elapsed, threads enter. 2: Closed one completion short of the threshold, threads complete with errors.
    /// 3: Half-Open with the probe in flight; its completion races with entries and stale completions.
    /// 4: probe rejected by a second (Open, not yet retryable) breaker, racing entries.
    pub kind: u8,
    pub res: String,
    /// breaker strategy of the breaker under test: 1 error ratio, 2 error count
    pub strategy: u8,
    pub tasks: Vec<Vec<TaskOp>>,
}

pub struct C16;

#[derive(Clone, Debug, PartialEq)]
enum Ev {
    /// `at_ms`: virtual time of the call-back; `completing`: the announcing thread is inside a completion
    /// (as opposed to a request, whose exit hook rolls a rejected probe back without re-arming the retry time)
    Trans { rule: String, prev: u8, to: u8, at_ms: u64, completing: bool },
    Decision { admitted: bool },
}

fn st(s: cb::State) -> u8 {
    match s {
        cb::State::Closed => 0,
        cb::State::Open => 1,
        cb::State::HalfOpen => 2,
    }
}

shuttle::thread_local! {
    static COMPLETING: std::cell::Cell<bool> = std::cell::Cell::new(false);
}

fn mark() -> (u64, bool) {
    (vc::now_ms(), COMPLETING.with(|c| c.get()))
}

struct Recorder {
    log: Arc<Mutex<Vec<Ev>>>,
}

impl cb::StateChangeListener for Recorder {
    fn on_transform_to_closed(&self, prev: cb::State, rule: Arc<cb::Rule>) {
        let (at_ms, completing) = mark();
        self.log.lock().unwrap().push(Ev::Trans { rule: rule.id.clone(), prev: st(prev), to: 0, at_ms, completing });
    }
    fn on_transform_to_open(&self, prev: cb::State, rule: Arc<cb::Rule>, _s: Option<Arc<Snapshot>>) {
        let (at_ms, completing) = mark();
        self.log.lock().unwrap().push(Ev::Trans { rule: rule.id.clone(), prev: st(prev), to: 1, at_ms, completing });
    }
    fn on_transform_to_half_open(&self, prev: cb::State, rule: Arc<cb::Rule>) {
        let (at_ms, completing) = mark();
        self.log.lock().unwrap().push(Ev::Trans { rule: rule.id.clone(), prev: st(prev), to: 2, at_ms, completing });
    }
}

impl Prop for C16 {
    fn id(&self) -> &'static str {
        "C16"
    }
    fn gap_ns(&self) -> u64 {
        100 * SEC
    }
    fn budget(&self, thorough: bool) -> Budget {
        if thorough {
            Budget { runs: 300_000, wall_s: 330 }
        } else {
            Budget { runs: 15_000, wall_s: 30 }
        }
    }
    fn needs_warm_up(&self) -> bool {
        false
    }
    fn engine(&self) -> &'static str {
        "sched"
    }
    fn classify_panic(&self, loc: &str, msg: &str) -> String {
        crate::common::classify(self.id(), loc, msg)
    }
    fn rule_text(&self) -> &'static str {
        "seeded thread programs around each breaker transition, set up sequentially inside the execution and then raced by 2-3 simulated threads under our own seeded scheduler: (S1) Open with the retry timeout elapsed, threads request entries; (S2) Closed one error short of the threshold, threads complete entries with errors; (S3) Half-Open with the probe in flight, its completion (ok|error) races with new requests and stale completions; (S4) a probe rejected by a second, still Open breaker, racing with other requests and with stale completions that decide the Half-Open phase first. The virtual clock is frozen during the race. Oracles over a totally ordered event log (listener callbacks + decisions): per breaker the transitions form a valid path with matching previous state, each performed once, and no Open->Half-Open happens before the retry time of the current Open phase (armed by the completion that opened it, untouched by a roll-back); S1 exactly one admitted probe; S2 exactly one Closed->Open; S3 a request is admitted only after Half-Open->Closed; S4 nobody admitted and every Half-Open phase ended by a roll-back or a close; final state = last transition. Non-trivial = execution with >= 1 preemption; distinct = distinct (schedule, outcome) hash."
    }
    fn components(&self) -> Value {
        json!({"real": ["sentinel-core (mechanically rewritten copy): circuit-breaker slot, stat slot, BreakerBase transitions and exit-hook rollback, the breakers, manager, EntryBuilder, slot chain"],
               "stub": ["Mutex/RwLock/atomics/thread/lazy_static (shuttle 0.9.3 primitives)", "scheduler (own seeded implementation)", "clock (virtual, hook H1, frozen during the race)", "getrandom (seeded)", "listener (recording)"]})
    }

    fn generate(&self, rng: &mut Rng, slot_ns: u64, _avoid: bool) -> Value {
        let kind = rng.range(1, 4) as u8;
        let ntasks = rng.range(2, 3) as usize;
        let mut tasks: Vec<Vec<TaskOp>> = vec![];
        match kind {
            1 => {
                for _ in 0..ntasks {
                    // a probe that fails at once re-opens the breaker while other requests are still deciding
                    tasks.push(vec![if rng.chance(1, 2) { TaskOp::Enter } else { TaskOp::EnterComplete { err: rng.chance(2, 3) } }]);
                }
            }
            2 => {
                for j in 0..ntasks {
                    tasks.push(vec![TaskOp::CompleteStale { j, err: true }]);
                }
            }
            3 => {
                tasks.push(vec![TaskOp::CompleteProbe { err: rng.chance(1, 2) }]);
                for j in 1..ntasks {
                    tasks.push(match rng.below(3) {
                        0 => vec![TaskOp::CompleteStale { j: j - 1, err: rng.chance(1, 2) }],
                        1 => vec![TaskOp::Enter],
                        _ => vec![TaskOp::Enter, TaskOp::CompleteStale { j: j - 1, err: rng.chance(1, 2) }],
                    });
                }
            }
            _ => {
                // requests, and (one program in two) completions of entries admitted while Closed:
                // such a completion decides a Half-Open phase that a rejected probe is about to roll back
                let with_stale = rng.chance(1, 2);
                for j in 0..ntasks {
                    let n = rng.range(1, 2) as usize;
                    let mut ops = vec![];
                    for _ in 0..n {
                        if with_stale && rng.chance(1, 3) {
                            ops.push(TaskOp::CompleteStale { j, err: rng.chance(1, 3) });
                        } else {
                            ops.push(TaskOp::Enter);
                        }
                    }
                    tasks.push(ops);
                }
            }
        }
        let epoch_ns = slot_ns - slot_ns % (10 * SEC) + rng.range(100, 300) * MS;
        let program = Program { kind, res: format!("c16_{:x}", rng.below(0xffffff)), strategy: rng.range(1, 2) as u8, tasks };
        json!({"epoch_ns": epoch_ns, "schedule": gen_schedule(rng, 200), "program": program})
    }

    fn execute(&self, scenario: &Value, cov: &mut Cov) -> RunResult {
        let epoch_ns = scenario["epoch_ns"].as_u64().unwrap();
        let prog: Program = serde_json::from_value(scenario["program"].clone()).expect("program");
        cov.hit(&format!("scenario_S{}", prog.kind));
        execute_sched(self.id(), "", scenario, 60_000, cov, move |obs: Obs| body(epoch_ns, &prog, obs))
    }

    fn shrink(&self, scenario: &Value) -> Vec<Value> {
        let mut out = shrink_schedule(scenario);
        let prog: Program = serde_json::from_value(scenario["program"].clone()).unwrap();
        if prog.tasks.len() > 2 {
            for i in 0..prog.tasks.len() {
                let mut p = prog.clone();
                p.tasks.remove(i);
                let mut c = scenario.clone();
                c["program"] = serde_json::to_value(p).unwrap();
                out.push(c);
            }
        }
        out
    }
}

fn enter(res: &str) -> Option<EntryStrongPtr> {
    EntryBuilder::new(res.to_string()).build().ok()
}

fn complete(e: &EntryStrongPtr, err: bool) {
    if err {
        e.set_err(sentinel_core::Error::msg("simulated downstream failure"));
    }
    COMPLETING.with(|c| c.set(true));
    e.exit();
    COMPLETING.with(|c| c.set(false));
}

fn body(epoch_ns: u64, prog: &Program, obs: Obs) {
    vc::set(epoch_ns);
    let log: Arc<Mutex<Vec<Ev>>> = Arc::new(Mutex::new(vec![]));
    cb::register_state_change_listeners(vec![Arc::new(Recorder { log: log.clone() })]);
    let main = BreakerSpec { id: "b1".into(), res: prog.res.clone(), strategy: prog.strategy, retry_ms: 1000, min_req: 3, interval_ms: 10_000, buckets: 1, max_rt: 0, threshold: if prog.strategy == 2 { 3.0 } else { 0.6 } };
    let mut rules = vec![main.rule()];
    if prog.kind == 4 {
        // second breaker: opens together with the first one but needs much longer before it may be probed
        rules.push(BreakerSpec { id: "b2".into(), retry_ms: 60_000, ..main.clone() }.rule());
    }
    cb::load_rules(rules);
    // ---- sequential set-up
    // entries admitted while Closed; some are kept for stale completions
    let mut stale: Vec<EntryStrongPtr> = vec![];
    for _ in 0..6 {
        match enter(&prog.res) {
            Some(e) => stale.push(e),
            None => oracle_fail!("HARNESS/c16-setup", "entry rejected while Closed"),
        }
    }
    let errors_to_open = 3; // error count 3 of >= 2 requests ; ratio 3/3 >= 0.6
    let mut probe: Option<EntryStrongPtr> = None;
    match prog.kind {
        2 => {
            // one error short of the threshold
            for _ in 0..errors_to_open - 1 {
                let e = stale.remove(0);
                complete(&e, true);
            }
        }
        _ => {
            for _ in 0..errors_to_open {
                let e = stale.remove(0);
                complete(&e, true);
            }
            // retry timeout of b1 elapses (b2 of S4 stays un-retryable)
            vc::advance(1_000 * MS);
            if prog.kind == 3 {
                probe = enter(&prog.res);
                if probe.is_none() {
                    oracle_fail!("HARNESS/c16-setup", "probe rejected after the retry timeout");
                }
            }
        }
    }
    let setup_len = log.lock().unwrap().len();
    let b1_state_before = cb::get_breakers_of_resource(&prog.res).iter().find(|b| b.bound_rule().id == "b1").map(|b| st(b.current_state())).unwrap_or(9);
    let expect_before = match prog.kind {
        2 => 0,
        3 => 2,
        _ => 1,
    };
    if b1_state_before != expect_before {
        oracle_fail!("HARNESS/c16-setup", "breaker state {} after set-up of S{}, expected {}", b1_state_before, prog.kind, expect_before);
    }
    // ---- race
    let stale = Arc::new(Mutex::new(stale.into_iter().map(Some).collect::<Vec<_>>()));
    let probe = Arc::new(Mutex::new(probe));
    let mut handles = vec![];
    for ops in prog.tasks.iter() {
        let ops = ops.clone();
        let res = prog.res.clone();
        let log = log.clone();
        let stale = stale.clone();
        let probe = probe.clone();
        handles.push(shuttle::thread::spawn(move || {
            let mut held = vec![];
            for op in ops {
                match op {
                    TaskOp::Enter => {
                        let e = enter(&res);
                        log.lock().unwrap().push(Ev::Decision { admitted: e.is_some() });
                        if let Some(e) = e {
                            held.push(e);
                        }
                    }
                    TaskOp::EnterComplete { err } => {
                        let e = enter(&res);
                        log.lock().unwrap().push(Ev::Decision { admitted: e.is_some() });
                        if let Some(e) = e {
                            complete(&e, err);
                        }
                    }
                    TaskOp::CompleteProbe { err } => {
                        let p = probe.lock().unwrap().take();
                        if let Some(p) = p {
                            complete(&p, err);
                        }
                    }
                    TaskOp::CompleteStale { j, err } => {
                        let e = {
                            let mut s = stale.lock().unwrap();
                            let n = s.len();
                            if n == 0 { None } else { s[j % n].take() }
                        };
                        if let Some(e) = e {
                            complete(&e, err);
                        }
                    }
                }
            }
            // entries still held are leaked on purpose (never completed)
            std::mem::forget(held);
        }));
    }
    for h in handles {
        h.join().unwrap();
    }
    // ---- oracle over the totally ordered event log
    let all = log.lock().unwrap().clone();
    let race: Vec<Ev> = all[setup_len..].to_vec();
    let breakers = cb::get_breakers_of_resource(&prog.res);
    for b in &breakers {
        let id = b.bound_rule().id.clone();
        let mut cur = 0u8;
        let mut deadline: Option<u64> = None;
        for (k, e) in all.iter().enumerate() {
            if let Ev::Trans { rule, prev, to, at_ms, completing } = e {
                if *rule != id {
                    continue;
                }
                // retry deadline of the current Open phase, as the state machine prescribes it: armed when a
                // completion opens the breaker, left alone when a rejected probe is rolled back
                if *to == 1 && (*prev == 0 || *completing) {
                    deadline = Some(*at_ms + b.bound_rule().retry_timeout_ms as u64);
                }
                if *to == 2 {
                    if let Some(d) = deadline {
                        if *at_ms < d {
                            oracle_fail!(
                                "C16/probe-admitted-before-retry-timeout",
                                "breaker {}: Open -> Half-Open announced at t={} ms, but the current Open phase began with a completion and may be probed only from t={} ms (events: {:?})",
                                id, at_ms, d, all.iter().filter(|x| matches!(x, Ev::Trans { rule, .. } if *rule == id)).collect::<Vec<_>>()
                            );
                        }
                    }
                }
                let legal = matches!((*prev, *to), (0, 1) | (1, 2) | (2, 0) | (2, 1));
                if *prev != cur || !legal {
                    oracle_fail!(
                        "C16/listener/not-a-path-of-the-state-machine",
                        "breaker {}: event {} announces {} -> {} but the previous events leave it in {} (events: {:?})",
                        id, k, prev, to, cur, all.iter().filter(|x| matches!(x, Ev::Trans { rule, .. } if *rule == id)).collect::<Vec<_>>()
                    );
                }
                cur = *to;
            }
        }
        let fin = st(b.current_state());
        obs.lock().unwrap().push(fin as u64);
        if fin != cur {
            oracle_fail!("C16/state/final-state-is-not-last-transition", "breaker {}: current_state {} but the last announced transition leaves {}", id, fin, cur);
        }
    }
    // nothing of the code under test may be alive when the runtime tears the statics down
    drop(breakers);
    cb::clear_rules();
    cb::clear_state_change_listeners();
    let admitted = race.iter().filter(|e| matches!(e, Ev::Decision { admitted: true })).count();
    let decisions = race.iter().filter(|e| matches!(e, Ev::Decision { .. })).count();
    let b1_trans: Vec<(u8, u8)> = race.iter().filter_map(|e| if let Ev::Trans { rule, prev, to, .. } = e { if rule == "b1" { Some((*prev, *to)) } else { None } } else { None }).collect();
    obs.lock().unwrap().push(admitted as u64 * 100 + b1_trans.len() as u64);
    match prog.kind {
        1 => {
            let probes = b1_trans.iter().filter(|t| **t == (1, 2)).count();
            let closes = b1_trans.iter().filter(|t| **t == (2, 0)).count();
            if closes == 0 {
                // nobody closed the breaker: every admission is a probe, one per Half-Open phase
                if admitted != probes {
                    oracle_fail!("C16/S1/admissions-differ-from-half-open-phases", "{} requests admitted but {} Open->Half-Open transitions (transitions {:?})", admitted, probes, b1_trans);
                }
                let reopened = b1_trans.iter().filter(|t| **t == (2, 1)).count();
                if probes > reopened + 1 {
                    oracle_fail!("C16/S1/two-probes-in-one-half-open-phase", "transitions {:?}", b1_trans);
                }
            }
            if admitted == 0 && decisions > 0 {
                oracle_fail!("C16/S1/no-probe-admitted-after-retry-timeout", "{} requests after the retry timeout, none admitted", decisions);
            }
        }
        2 => {
            let opens = b1_trans.iter().filter(|t| **t == (0, 1)).count();
            if opens != 1 {
                oracle_fail!("C16/S2/closed-to-open-not-exactly-once", "{} error completions reached the threshold, transitions {:?}", prog.tasks.len(), b1_trans);
            }
        }
        3 => {
            let closes = b1_trans.iter().filter(|t| **t == (2, 0)).count();
            if admitted > 0 && closes == 0 {
                oracle_fail!("C16/S3/admitted-without-close", "{} requests admitted although the breaker never went Half-Open->Closed (transitions {:?})", admitted, b1_trans);
            }
            if b1_trans.is_empty() {
                oracle_fail!("C16/S3/probe-completion-decided-nothing", "the probe completed but no transition was announced");
            }
        }
        _ => {
            if admitted > 0 {
                oracle_fail!("C16/S4/admitted-although-second-breaker-open", "{} requests admitted", admitted);
            }
            let probes = b1_trans.iter().filter(|t| **t == (1, 2)).count();
            // every Half-Open phase is ended: by the rejected probe's roll-back (or a stale failure),
            // or by a stale successful completion that closes the breaker
            let rollbacks = b1_trans.iter().filter(|t| **t == (2, 1)).count();
            let closes = b1_trans.iter().filter(|t| **t == (2, 0)).count();
            if probes != rollbacks + closes {
                oracle_fail!("C16/S4/rejected-probe-not-rolled-back", "{} probes won, {} rolled back, {} closed (transitions {:?})", probes, rollbacks, closes, b1_trans);
            }
        }
    }
}
