//! C15 — concurrent rule updates and entries never deadlock, panic or poison a manager.

use crate::common::{execute_sched, gen_schedule, shrink_schedule, Obs};
use crate::engine::{Budget, Cov, Prop, RunResult};
use crate::fam::{self, AnySpec, FAMILIES};
use crate::oracle_fail;
use crate::rng::Rng;
use crate::seams::vc;
use crate::world::{BreakerSpec, FlowSpec, HotspotSpec, IsoSpec, SysSpec, MS, SEC};
use sentinel_core::base::Snapshot;
use sentinel_core::{circuitbreaker as cb, flow, hotspot, EntryBuilder};
use serde::{Deserialize, Serialize};
use serde_json::{json, Value};
use shuttle::sync::{Arc, Mutex, Weak};

#[derive(Serialize, Deserialize, Clone, Debug)]
#[serde(tag = "t")]
pub enum MOp {
    LoadAll { fam: usize, rules: Vec<AnySpec> },
    LoadRes { fam: usize, res: String, rules: Vec<AnySpec> },
    Append { rule: AnySpec },
    Clear { fam: usize },
    ClearRes { fam: usize, res: String },
    GetAll { fam: usize },
    GetRes { fam: usize, res: String },
    /// build an entry on the resource, let `ms` pass, exit it (optionally flagged as error)
    Entry { res: String, err: bool, ms: u64 },
}

#[derive(Serialize, Deserialize, Clone, Debug)]
pub struct Program {
    /// rules of each family present before the threads start
    pub preload: Vec<AnySpec>,
    pub tasks: Vec<Vec<MOp>>,
    /// sequential prelude: failing entries on both resources, then the clock moves past the retry
    /// timeout, so that the racing entries find Open breakers ready to be probed (transitions and
    /// listener callbacks happen inside the race)
    #[serde(default)]
    pub trip: bool,
    /// after the prelude a flow rule with threshold 0 is loaded on both resources: a probe admitted by a
    /// breaker is rejected elsewhere, so its exit hook rolls the breaker back (state lock, then listeners lock)
    /// while other threads replace or clear the breakers (breaker drop: listeners lock, then state lock)
    #[serde(default)]
    pub block_probe: bool,
    /// a StateChangeListener whose callbacks call read-only circuit-breaker manager functions
    pub listener: bool,
    /// custom generators (flow / hotspot / breaker) whose callbacks call read-only manager functions
    pub custom_generators: bool,
}

pub struct C15;

fn res_name(i: u64) -> String {
    format!("c15_r{}", i)
}

fn gen_rule(rng: &mut Rng, fam: usize, custom: bool, n: &mut u32) -> AnySpec {
    *n += 1;
    let id = format!("k{}", n);
    let res = res_name(rng.below(2));
    let cust = custom && rng.chance(1, 2);
    match fam {
        0 => AnySpec::Flow(FlowSpec {
            calc: if cust { 101 } else { 0 },
            ..FlowSpec::reject(&id, &res, rng.range(1, 5) as f64, *rng.pick(&[0u32, 1000, 3000]))
        }),
        1 => AnySpec::Breaker(BreakerSpec {
            id,
            res,
            strategy: if cust { 101 } else { rng.below(3) as u8 },
            retry_ms: 1000,
            min_req: 1,
            interval_ms: 1000,
            buckets: 1,
            max_rt: 10,
            threshold: *rng.pick(&[0.5f64, 1.0]),
        }),
        2 => AnySpec::Hot(HotspotSpec {
            id,
            res,
            metric: if cust { 1 } else { rng.below(2) as u8 },
            ctrl: if cust { 101 } else { 0 },
            index: 0,
            key: String::new(),
            threshold: rng.range(1, 5),
            max_queue_ms: 0,
            burst: 0,
            duration_s: 1,
            capacity: 0,
            specific: vec![],
        }),
        3 => AnySpec::Iso(IsoSpec { id, res, threshold: rng.range(1, 5) as u32 }),
        _ => AnySpec::Sys(SysSpec { id, metric: *rng.pick(&[2u8, 3]), threshold: 1000.0, bbr: 0 }),
    }
}

fn gen_op(rng: &mut Rng, fam: usize, custom: bool, n: &mut u32) -> MOp {
    let res = res_name(rng.below(2));
    match rng.weighted(&[5, 4, 5, 2, 2, 2, 2]) {
        0 => MOp::LoadAll { fam, rules: (0..rng.range(0, 3)).map(|_| gen_rule(rng, fam, custom, n)).collect() },
        1 if fam != 4 => {
            let rules: Vec<AnySpec> = (0..rng.range(0, 2))
                .map(|_| {
                    let mut r = gen_rule(rng, fam, custom, n);
                    match &mut r {
                        AnySpec::Flow(s) => s.res = res.clone(),
                        AnySpec::Breaker(s) => s.res = res.clone(),
                        AnySpec::Hot(s) => s.res = res.clone(),
                        AnySpec::Iso(s) => s.res = res.clone(),
                        _ => {}
                    }
                    r
                })
                .collect();
            MOp::LoadRes { fam, res, rules }
        }
        2 | 1 => MOp::Append { rule: gen_rule(rng, fam, custom, n) },
        3 => MOp::Clear { fam },
        4 if fam != 4 => MOp::ClearRes { fam, res },
        5 | 4 => MOp::GetAll { fam },
        _ if fam != 4 => MOp::GetRes { fam, res },
        _ => MOp::GetAll { fam },
    }
}

impl Prop for C15 {
    fn id(&self) -> &'static str {
        "C15"
    }
    fn gap_ns(&self) -> u64 {
        100 * SEC
    }
    fn budget(&self, thorough: bool) -> Budget {
        if thorough {
            Budget { runs: 300_000, wall_s: 330 }
        } else {
            Budget { runs: 15_000, wall_s: 30 }
        }
    }
    fn needs_warm_up(&self) -> bool {
        false
    }
    fn engine(&self) -> &'static str {
        "sched"
    }
    fn classify_panic(&self, loc: &str, msg: &str) -> String {
        crate::common::classify(self.id(), loc, msg)
    }
    fn qualifier(&self, scenario: &Value) -> String {
        let g = scenario["program"]["custom_generators"].as_bool().unwrap_or(false);
        let l = scenario["program"]["listener"].as_bool().unwrap_or(false);
        match (g, l) {
            (true, true) => "with-callback-generators+listener".into(),
            (true, false) => "with-callback-generators".into(),
            (false, true) => "with-callback-listener".into(),
            _ => String::new(),
        }
    }
    fn rule_text(&self) -> &'static str {
        "seeded thread programs: 2-3 simulated threads x 1-2 manager operations (load-all, load-for-resource, append, clear, clear-for-resource, get-all, get-for-resource) within one family or across two families, on rules preloaded for the affected resources, optionally with a concurrent build/exit (ok|error) on an affected resource, optionally with a StateChangeListener and custom flow/hotspot/breaker generators whose callbacks call read-only manager functions; every lock acquisition is a scheduling point of our own seeded scheduler (uniform, PCT-style, preemption-sparse). Verdicts: the scheduler runtime's deadlock detection (incl. a thread blocking on a lock it holds), a step bound (bounded liveness), no panic, and afterwards a sequential health probe of all five managers. Non-trivial = execution with >= 1 preemption; distinct = distinct (schedule, outcome) hash."
    }
    fn components(&self) -> Value {
        json!({"real": ["sentinel-core (mechanically rewritten copy): the five rule managers, controller/breaker builders, breaker Drop + listeners, EntryBuilder, slot chain, node storage"],
               "stub": ["Mutex/RwLock/atomics/thread/lazy_static (shuttle 0.9.3 primitives)", "scheduler (own seeded implementation)", "clock (virtual, hook H1)", "getrandom (seeded)", "listener / custom generators (call back into read-only manager functions)"]})
    }

    fn generate(&self, rng: &mut Rng, slot_ns: u64, avoid: bool) -> Value {
        let mut listener = !avoid && rng.chance(1, 4);
        let custom_generators = !avoid && rng.chance(1, 5);
        let f1 = if listener { 1 } else { rng.below(5) as usize };
        let f2 = if rng.chance(7, 10) { f1 } else { rng.below(5) as usize };
        let mut n = 0u32;
        let mut preload = vec![];
        for f in [f1, f2] {
            for _ in 0..rng.range(0, 2) {
                preload.push(gen_rule(rng, f, custom_generators, &mut n));
            }
        }
        let ntasks = rng.range(2, 3);
        let with_entry = rng.chance(1, 2);
        let mut tasks: Vec<Vec<MOp>> = vec![];
        for t in 0..ntasks {
            if with_entry && t == ntasks - 1 {
                tasks.push((0..rng.range(1, 2)).map(|_| MOp::Entry { res: res_name(rng.below(2)), err: rng.chance(1, 2), ms: *rng.pick(&[0u64, 1, 20]) }).collect());
            } else {
                let f = if rng.chance(1, 2) { f1 } else { f2 };
                tasks.push((0..rng.range(1, 2)).map(|_| gen_op(rng, f, custom_generators, &mut n)).collect());
            }
        }
        let epoch_ns = slot_ns - slot_ns % (10 * SEC) + rng.range(100, 300) * MS;
        let trip = (f1 == 1 || f2 == 1) && rng.chance(2, 3);
        let block_probe = trip && rng.chance(1, 3);
        if block_probe {
            // the breaker's drop announcement reads the state only if a listener is registered
            listener = true;
            // make sure the race has a probing entry and an operation that drops breakers
            let r = res_name(rng.below(2));
            tasks[0] = vec![MOp::Entry { res: r.clone(), err: false, ms: 0 }];
            let drop_op = match rng.below(4) {
                0 => MOp::Clear { fam: 1 },
                1 => MOp::ClearRes { fam: 1, res: r },
                2 => MOp::LoadAll { fam: 1, rules: vec![] },
                _ => MOp::LoadAll { fam: 1, rules: (0..rng.range(1, 2)).map(|_| gen_rule(rng, 1, false, &mut n)).collect() },
            };
            let last = tasks.len() - 1;
            tasks[last] = vec![drop_op];
            if !preload.iter().any(|x| x.fam() == 1) {
                preload.push(gen_rule(rng, 1, false, &mut n));
                preload.push(gen_rule(rng, 1, false, &mut n));
            }
        }
        json!({"epoch_ns": epoch_ns, "schedule": gen_schedule(rng, 250), "program": Program { preload, tasks, trip, block_probe, listener, custom_generators }})
    }

    fn execute(&self, scenario: &Value, cov: &mut Cov) -> RunResult {
        let epoch_ns = scenario["epoch_ns"].as_u64().unwrap();
        let prog: Program = serde_json::from_value(scenario["program"].clone()).expect("program");
        if prog.listener {
            cov.hit("with_callback_listener");
        }
        if prog.trip {
            cov.hit("with_tripped_breakers_ready_to_probe");
        }
        if prog.block_probe {
            cov.hit("probe_rejected_elsewhere_while_breakers_are_replaced");
        }
        if prog.custom_generators {
            cov.hit("with_callback_generators");
        }
        for t in &prog.tasks {
            for op in t {
                let (name, fam) = match op {
                    MOp::LoadAll { fam, .. } => ("load", *fam),
                    MOp::LoadRes { fam, .. } => ("load-for-resource", *fam),
                    MOp::Append { rule } => ("append", rule.fam()),
                    MOp::Clear { fam } => ("clear", *fam),
                    MOp::ClearRes { fam, .. } => ("clear-for-resource", *fam),
                    MOp::GetAll { fam } => ("get", *fam),
                    MOp::GetRes { fam, .. } => ("get-for-resource", *fam),
                    MOp::Entry { .. } => ("entry", 5),
                };
                cov.hit(&format!("op_{}_{}", if fam < 5 { FAMILIES[fam] } else { "any" }, name));
            }
        }
        execute_sched(self.id(), &self.qualifier(scenario), scenario, 60_000, cov, move |obs: Obs| body(epoch_ns, &prog, obs))
    }

    fn shrink(&self, scenario: &Value) -> Vec<Value> {
        let mut out = shrink_schedule(scenario);
        let prog: Program = serde_json::from_value(scenario["program"].clone()).unwrap();
        let mut push = |p: Program| {
            let mut c = scenario.clone();
            c["program"] = serde_json::to_value(p).unwrap();
            out.push(c);
        };
        if prog.tasks.len() > 1 {
            for i in 0..prog.tasks.len() {
                let mut p = prog.clone();
                p.tasks.remove(i);
                push(p);
            }
        }
        for i in 0..prog.tasks.len() {
            if prog.tasks[i].len() > 1 {
                for j in 0..prog.tasks[i].len() {
                    let mut p = prog.clone();
                    p.tasks[i].remove(j);
                    push(p);
                }
            }
        }
        for i in 0..prog.preload.len() {
            let mut p = prog.clone();
            p.preload.remove(i);
            push(p);
        }
        if prog.listener {
            let mut p = prog.clone();
            p.listener = false;
            push(p);
        }
        if prog.trip && !prog.block_probe {
            let mut p = prog.clone();
            p.trip = false;
            push(p);
        }
        if prog.custom_generators {
            let mut p = prog.clone();
            p.custom_generators = false;
            push(p);
        }
        out
    }
}

struct CallbackListener;
impl CallbackListener {
    fn touch(rule: &Arc<cb::Rule>) {
        let _ = cb::get_rules();
        let _ = cb::get_rules_of_resource(&rule.resource);
        let _ = cb::get_breakers_of_resource(&rule.resource);
    }
}
impl cb::StateChangeListener for CallbackListener {
    fn on_transform_to_closed(&self, _prev: cb::State, rule: Arc<cb::Rule>) {
        Self::touch(&rule)
    }
    fn on_transform_to_open(&self, _prev: cb::State, rule: Arc<cb::Rule>, _s: Option<Arc<Snapshot>>) {
        Self::touch(&rule)
    }
    fn on_transform_to_half_open(&self, _prev: cb::State, rule: Arc<cb::Rule>) {
        Self::touch(&rule)
    }
    fn on_circuit_breaker_drop(&self, _prev: cb::State, rule: Arc<cb::Rule>) {
        Self::touch(&rule)
    }
}

fn register_custom_generators() {
    flow::set_traffic_shaping_generator(
        flow::CalculateStrategy::Custom(101),
        flow::ControlStrategy::Reject,
        Box::new(|rule: Arc<flow::Rule>, _stat: Option<Arc<flow::StandaloneStat>>| {
            // read-only call back into the manager
            let _ = flow::get_rules();
            let _ = flow::get_rules_of_resource(&rule.resource);
            let stat = Arc::new(flow::StandaloneStat::new(false, sentinel_core::base::nop_read_stat(), Some(sentinel_core::base::nop_write_stat())));
            let calculator: Arc<Mutex<dyn flow::Calculator>> = Arc::new(Mutex::new(flow::DirectCalculator::new(Weak::new(), Arc::clone(&rule))));
            let checker: Arc<Mutex<dyn flow::Checker>> = Arc::new(Mutex::new(flow::RejectChecker::new(Weak::new(), Arc::clone(&rule))));
            let mut tsc = flow::Controller::new(Arc::clone(&rule), stat);
            tsc.set_calculator(Arc::clone(&calculator));
            tsc.set_checker(Arc::clone(&checker));
            let tsc = Arc::new(tsc);
            calculator.lock().unwrap().set_owner(Arc::downgrade(&tsc));
            checker.lock().unwrap().set_owner(Arc::downgrade(&tsc));
            Ok(tsc)
        }),
    )
    .unwrap();
    hotspot::set_traffic_shaping_generator(
        hotspot::ControlStrategy::Custom(101),
        Box::new(|rule: Arc<hotspot::Rule>, _m: Option<Arc<hotspot::ParamsMetric>>| {
            let _ = hotspot::get_rules();
            let _ = hotspot::get_rules_of_resource(&rule.resource);
            let checker: Arc<Mutex<dyn hotspot::Checker>> = Arc::new(Mutex::new(hotspot::RejectChecker::<hotspot::Counter>::new()));
            let mut tsc = hotspot::Controller::new(rule);
            tsc.set_checker(Arc::clone(&checker));
            let tsc = Arc::new(tsc);
            checker.lock().unwrap().set_owner(Arc::downgrade(&tsc));
            tsc
        }),
    )
    .unwrap();
    cb::set_circuit_breaker_generator(
        cb::BreakerStrategy::Custom(101),
        Box::new(|rule: Arc<cb::Rule>, _stat: Option<Arc<cb::CounterLeapArray>>| -> Arc<dyn cb::CircuitBreakerTrait> {
            let _ = cb::get_rules();
            let _ = cb::get_rules_of_resource(&rule.resource);
            Arc::new(cb::ErrorCountBreaker::new(rule))
        }),
    )
    .unwrap();
}

fn apply(op: &MOp) {
    match op {
        MOp::LoadAll { fam, rules } => {
            fam::load_all(*fam, rules);
        }
        MOp::LoadRes { fam, res, rules } => {
            let _ = fam::load_res(*fam, res, rules);
        }
        MOp::Append { rule } => {
            fam::append(rule);
        }
        MOp::Clear { fam } => fam::clear(*fam),
        MOp::ClearRes { fam, res } => {
            fam::clear_res(*fam, res);
        }
        MOp::GetAll { fam } => {
            let _ = fam::get_all(*fam);
        }
        MOp::GetRes { fam, res } => {
            let _ = fam::get_res(*fam, res);
        }
        MOp::Entry { res, err, ms } => {
            if let Ok(e) = EntryBuilder::new(res.clone()).with_args(Some(vec!["a".into()])).build() {
                vc::advance(ms * MS);
                if *err {
                    e.set_err(sentinel_core::Error::msg("simulated downstream failure"));
                }
                e.exit();
            }
        }
    }
}

fn body(epoch_ns: u64, prog: &Program, obs: Obs) {
    vc::set(epoch_ns);
    if prog.custom_generators {
        register_custom_generators();
    }
    if prog.listener {
        cb::register_state_change_listeners(vec![Arc::new(CallbackListener)]);
    }
    // preload sequentially, family by family
    for f in 0..5 {
        let rules: Vec<AnySpec> = prog.preload.iter().filter(|r| r.fam() == f).cloned().collect();
        if !rules.is_empty() {
            fam::load_all(f, &rules);
        }
    }
    if prog.trip {
        for r in 0..2 {
            for _ in 0..3 {
                apply(&MOp::Entry { res: res_name(r), err: true, ms: 20 });
            }
        }
        vc::advance(1_500 * MS);
        if prog.block_probe {
            fam::load_all(0, &[AnySpec::Flow(FlowSpec::reject("deny0", &res_name(0), 0.0, 0)), AnySpec::Flow(FlowSpec::reject("deny1", &res_name(1), 0.0, 0))]);
        }
    }
    let mut handles = vec![];
    for ops in prog.tasks.iter() {
        let ops = ops.clone();
        handles.push(shuttle::thread::spawn(move || {
            for op in &ops {
                apply(op);
            }
        }));
    }
    for h in handles {
        h.join().unwrap();
    }
    // sequential health probe: every manager still answers queries and accepts updates
    for f in 0..5 {
        let n = fam::get_all(f).len();
        obs.lock().unwrap().push(n as u64);
        let probe = match f {
            0 => AnySpec::Flow(FlowSpec::reject("probe", "c15_probe", 1.0, 0)),
            1 => AnySpec::Breaker(BreakerSpec { id: "probe".into(), res: "c15_probe".into(), strategy: 2, retry_ms: 1000, min_req: 1, interval_ms: 1000, buckets: 1, max_rt: 0, threshold: 1.0 }),
            2 => AnySpec::Hot(HotspotSpec { id: "probe".into(), res: "c15_probe".into(), metric: 0, ctrl: 0, index: 0, key: String::new(), threshold: 1, max_queue_ms: 0, burst: 0, duration_s: 1, capacity: 0, specific: vec![] }),
            3 => AnySpec::Iso(IsoSpec { id: "probe".into(), res: "c15_probe".into(), threshold: 1 }),
            _ => AnySpec::Sys(SysSpec { id: "probe".into(), metric: 3, threshold: 1e9, bbr: 0 }),
        };
        fam::load_all(f, &[probe.clone()]);
        if !fam::get_all(f).iter().any(|s| s.id == "probe") {
            oracle_fail!(format!("C15/{}/manager-does-not-accept-updates-afterwards", FAMILIES[f]), "probe rule not reported after load");
        }
        fam::clear(f);
        if !fam::get_all(f).is_empty() {
            oracle_fail!(format!("C15/{}/manager-does-not-clear-afterwards", FAMILIES[f]), "rules remain after clear");
        }
    }
}
