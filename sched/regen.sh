#!/bin/bash
# Mechanical source rewrite for engine SCHED (DESIGN §2.4): copies /repo/sentinel-core/src (current
# working tree) to /verif/.gen/core-sched/src and swaps std's sync/thread primitives for shuttle's.
# Exit 2 (harness error) if a primitive the table does not cover remains outside #[cfg(test)] code.
set -eu
ROOT="$(cd "$(dirname "$0")/.." && pwd)"
SRC=/repo/sentinel-core/src
DST="$ROOT/.gen/core-sched/src"
TMP="$ROOT/.gen/core-sched/src.new"
rm -rf "$TMP"; mkdir -p "$TMP"
cp -r "$SRC/." "$TMP/"
find "$TMP" -name '*.rs' -print0 | xargs -0 sed -i -E \
  -e 's/\bstd::sync\b/shuttle::sync/g' \
  -e 's/\bstd::thread::/shuttle::thread::/g' \
  -e 's/use lazy_static::lazy_static;/use shuttle::lazy_static;/g' \
  -e 's/\bstd::thread_local!/shuttle::thread_local!/g' \
  -e 's/^(\s*)thread_local!/\1shuttle::thread_local!/g'
# residual-pattern guard (tests are compiled out, but the scan is textual: ignore mod test files' cfg(test) blocks by scanning only
# lines before the first `#[cfg(test)]` of each file)
bad=0
while IFS= read -r -d '' f; do
  awk '/^#\[cfg\(test\)\]/{exit} {print}' "$f" | grep -nE 'std::sync|std::thread::|lazy_static::lazy_static|parking_lot|crossbeam' >/dev/null && { echo "regen: uncovered primitive in $f"; bad=1; } || true
done < <(find "$TMP" -name '*.rs' -print0)
[ "$bad" = 0 ] || exit 2
# write only changed files so that cargo rebuilds incrementally
mkdir -p "$DST"
( cd "$TMP" && find . -type f -print0 ) | while IFS= read -r -d '' f; do
  if ! cmp -s "$TMP/$f" "$DST/$f" 2>/dev/null; then mkdir -p "$(dirname "$DST/$f")"; cp "$TMP/$f" "$DST/$f"; fi
done
# remove files that disappeared
( cd "$DST" && find . -type f -print0 ) | while IFS= read -r -d '' f; do [ -e "$TMP/$f" ] || rm -f "$DST/$f"; done
rm -rf "$TMP"
